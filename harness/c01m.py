"""C01M - mechanism-level model M (coq/Core/Mech.v) of the component renderer, tied to the implementation and to the
reference renderer S (coq/Core/Sem.v) on every run.  Deepens C01 / C03 / C05 (which are decided against S only).

  implementation vs M : must agree on EVERY generated program, with and without variable-name collisions
                        (M is a model of the code: it must reproduce the corners where the code deviates from S)
  M vs S              : must agree on programs without name collisions (and is proved for the fragment wf_prog of
                        Props/C01M.v); with collisions / django+only the deviations are counted and reported, never alarmed on
"""
import json
import os

import common as C
import core_run as R
import genprog as G
import c01

IMPORTS = "From DJC Require Import Lib.Base Core.Syntax Core.Sem Core.Mech."
VERBOSE = os.environ.get("C01M_VERBOSE")
CORPUS = os.path.join(C.VERIF, "corpus", "C01M")


def nontrivial(feats):
    return "fill" in feats and "slot" in feats and "comp-nested" in feats


def gen_programs(rng, n, mode, collide, provide, only):
    for i in range(n):
        small = i < n // 3
        g = G.Gen(rng, mode, ncomp=rng.randint(1, 2) if small else None, collide=collide, provide=provide if (i % 2 or provide > 0.5) else 0.0,
                  errors=0.03, depth=2 if small else 3, only=only)
        yield g.program()


def possible_kinds(prog):
    """exception classes the program can raise at all: C01's static over-approximation + RuntimeError when some fill names the
    same variable in data= and default= (reachable with colliding names)"""
    ks = set(c01.possible_kinds(prog))
    nodes = G.flatten(prog["page"]) + [t for _, cd in prog["lib"] for t in G.flatten(cd["tpl"])]
    if any(t[0] == "fill" and t[2] and t[2] == t[3] for t in nodes):
        ks.add("ERuntime")
    return ks


def describe(prog):
    return {"mode": prog["mode"], "ctx": prog["ctx"], "page": G.d_tpls(prog["page"]),
            "components": {n: {"template": G.d_tpls(cd["tpl"]), "data": cd["data"]} for n, cd in prog["lib"]}}


def coq_eval(tag, case_type, fn, terms, shard=None):
    if not terms:
        return []
    if shard is None:
        shard = max(8, len(terms) // C.NCPU + 1)     # one shard per job
    return C.coq_eval_cases("C01M", tag, IMPORTS, case_type, fn, terms, shard=shard)


def smallest(idx, meta, k):
    return sorted(idx, key=lambda i: len(json.dumps(meta[i][0])))[:k]


def check_batch(chk, progs, tag, key, ms_must_agree):
    """implementation vs M on every program; M vs S on every program (alarm only when ms_must_agree)"""
    terms, pterms, meta, diverge = [], [], [], []
    for prog in progs:
        feats = G.features(prog)
        o = R.render_page(prog)
        chk.count(json.dumps(prog, sort_keys=True), nontrivial(feats), kind="%s/%s" % (key, "err" if o[0] == "err" else "ok"),
                  sample=dict(describe(prog), output=o[1][:200]) if nontrivial(feats) and len(G.d_tpls(prog["page"])) < 250 else None)
        for f in feats:
            chk.dist["feature:" + f] += 1
        if o == ("err", "other:RecursionError"):
            # the implementation recursed without bound: M must run out of fuel on the same program
            diverge.append(prog)
            continue
        if o[0] == "err" and o[1].startswith("other:"):
            chk.fail("c01m-unexpected-exception", "render raised %s" % o[1][6:], {"program": prog, "outcome": o})
            continue
        terms.append("(%s, %s)" % (G.c_prog(prog), R.c_outcome(o)))
        pterms.append(G.c_prog(prog))
        meta.append((prog, o))
    if diverge:
        dterms = [G.c_prog(p) for p in diverge]
        nd = coq_eval(tag + "d", "prog", "check_mech_diverges", dterms, shard=4)
        chk.dist["%s:impl-RecursionError/M-out-of-fuel" % key] += len(diverge) - len(nd)
        if nd:
            # several error sources: M renders children in place and stops at the first error in document order, the
            # implementation defers the children's templates, so the unbounded recursion can come first there. Agreement =
            # M does not terminate once the errors of child templates are deferred as well (Mech.mrender_d).
            nd2 = [nd[j] for j in coq_eval(tag + "f", "prog", "check_mech_diverges_deferred", [dterms[i] for i in nd], shard=4)]
            chk.dist["%s:impl-RecursionError/M-out-of-fuel-with-child-errors-deferred" % key] += len(nd) - len(nd2)
            nd = nd2
        if nd:
            uns = {nd[j] for j in coq_eval(tag + "e", "prog", "mech_unsup_p", [dterms[i] for i in nd], shard=4)}
            chk.dist["%s:outside-modelled-fragment" % key] += len(uns)
            nd = [i for i in nd if i not in uns]
        for i in nd[:3]:
            chk.disagree("implementation raised RecursionError but M terminates (batch %s)" % key, dict(describe(diverge[i]), program=diverge[i]))
    # ---- one pass in which everything agrees (the common case); separate passes only over what differs
    first = coq_eval(tag + "a", "core_case", "check_all" if ms_must_agree else "check_mech_restored", terms)
    sub = [terms[i] for i in first]
    psub = [pterms[i] for i in first]
    # ---- implementation vs M
    bad = [first[j] for j in coq_eval(tag + "m", "core_case", "check_mech", sub)]
    if bad:
        unsup = coq_eval(tag + "u", "core_case", "mech_supported", [terms[i] for i in bad])
        uns = {bad[j] for j in unsup}
        chk.dist["%s:outside-modelled-fragment" % key] += len(uns)
        bad = [i for i in bad if i not in uns]
        if ms_must_agree and uns:
            i = smallest(uns, meta, 1)[0]
            chk.disagree("a collision-free program leaves the fragment M models (MUnsup)", {"program": meta[i][0], "implementation": meta[i][1]})
    maybe = [i for i in bad if meta[i][1][0] == "err" and meta[i][1][1] in possible_kinds(meta[i][0]) and len(possible_kinds(meta[i][0])) > 1]   # (the generator's own count of error sources, "nerr", undercounts: looped fills can duplicate names)
    if maybe:
        still = coq_eval(tag + "l", "core_case", "check_mech_lenient", [terms[i] for i in maybe])
        ok = set(maybe) - {maybe[i] for i in still}
        chk.dist["error-class-order-ambiguous"] += len(ok)
        bad = [i for i in bad if i not in ok]
    for i in smallest(bad, meta, 5):
        prog, o = meta[i]
        if VERBOSE:
            print("IMPL-vs-M", json.dumps(describe(prog), indent=1), o)
        chk.disagree("implementation and mechanism model M differ (batch %s)" % key, dict(describe(prog), program=prog, implementation=o))
    chk.dist["%s:impl-vs-M-agree" % key] += len(terms) - len(bad)
    chk.dist["%s:impl-vs-M-differ" % key] += len(bad)
    # ---- M vs S
    if ms_must_agree:
        bad2 = [first[j] for j in coq_eval(tag + "s", "prog", "check_ms", psub)]
    else:
        bad2 = coq_eval(tag + "s", "prog", "check_ms", pterms)
    if bad2:
        still = set(coq_eval(tag + "t", "prog", "check_ms_lenient", [pterms[i] for i in bad2]))
        amb = [bad2[j] for j in range(len(bad2)) if j not in still and meta[bad2[j]][0].get("nerr", 2) > 1]
        bad2 = [i for i in bad2 if i not in amb]
    chk.dist["%s:M-vs-S-agree" % key] += len(pterms) - len(bad2)
    chk.dist["%s:M-vs-S-differ" % key] += len(bad2)
    if ms_must_agree:
        for i in smallest(bad2, meta, 5):
            prog, o = meta[i]
            if VERBOSE:
                print("M-vs-S", json.dumps(describe(prog), indent=1), o)
            chk.disagree("mechanism model M and reference renderer S differ on a program without name collisions (batch %s)" % key,
                         dict(describe(prog), program=prog, implementation=o))
    # ---- the page Context is left as it was (executable counterpart of ctx_restored)
    bad3 = [first[j] for j in coq_eval(tag + "r", "prog", "check_restored", psub)]
    for i in bad3[:3]:
        chk.disagree("M: the page Context is not left with the layers it had", {"program": meta[i][0]})
    return len(bad), len(bad2)


def corpus_programs():
    """C01's corpus (M must agree with S there) and C01M's own witnesses (M must agree with the implementation; S differs)"""
    own = []
    if os.path.isdir(CORPUS):
        for f in sorted(os.listdir(CORPUS)):
            if f.endswith(".json"):
                own.append(c01.fix_prog(json.load(open(os.path.join(CORPUS, f)))))
    return c01.corpus_programs(), own


def check_fragment(chk, progs, tag, name, wf_fn, mode="isolated", keep=()):
    """programs rewritten into the fragment of a refinement theorem (wf_fn = its decidable premise): the statement of the theorem
    is evaluated on them (wf_fn p -> M p = S p) and they are run on the implementation like every other program.
    keep: features NOT rewritten away (the widened fragments)"""
    import c01m_util as U
    frag = [U.fragmentize(p, mode, keep) for p in progs]
    pterms = [G.c_prog(p) for p in frag]
    notwf = set(coq_eval(tag + "w", "prog", wf_fn, pterms))
    bad = coq_eval(tag + "x", "prog", "(fun p => negb (%s p) || check_ms p)" % wf_fn, pterms)
    chk.dist["fragment/%s:programs" % name] += len(frag)
    chk.dist["fragment/%s:%s" % (name, wf_fn)] += len(frag) - len(notwf)
    chk.dist["fragment/%s:wf-and-M-differs-from-S" % name] += len(bad)
    for i in bad[:3]:
        chk.disagree("a program satisfying %s on which M and S differ (contradicts the theorem: broken build?)" % wf_fn,
                     dict(describe(frag[i]), program=frag[i]))
    wf = [p for i, p in enumerate(frag) if i not in notwf]
    check_batch(chk, wf, tag, "fragment/" + name, True)
    return len(wf)


# (tag, mode, collide, only, provide, share of n, M-vs-S must agree)
BATCHES = [("isod", "isolated", 0.0, 0.12, 0.3, 1.0, True), ("djad", "django", 0.0, 0.0, 0.3, 1.0, True),
           ("djao", "django", 0.0, 0.3, 0.3, 1.0, False),
           ("isoc", "isolated", 0.35, 0.12, 0.3, 1.0, False), ("djac", "django", 0.35, 0.12, 0.3, 1.0, False),
           # provide / inject heavy (the _DJC_INJECT__ keys through isolated copies, slot extra_context and snapshots)
           ("isop", "isolated", 0.0, 0.12, 0.9, 0.5, True), ("djap", "django", 0.0, 0.0, 0.9, 0.5, True)]


def run(tier, seed, report_as=None):
    import djsetup
    import gen_constants
    djsetup.setup()
    djsetup.patch_ids()
    gen_constants.generate(["C01M"])
    chk = C.Check("C01M", tier, seed, report_as=report_as)
    chk.prove()
    n = 1200 if tier == "thorough" else int(os.environ.get("C01M_N", "180"))
    shared, own = corpus_programs()
    check_batch(chk, shared, "corpus", "corpus", True)
    check_batch(chk, own, "corpm", "corpus-C01M", False)
    keep, keepp, keepf = [], [], []
    for tag, mode, collide, only, provide, share, must in BATCHES:
        progs = list(gen_programs(chk.rng, int(n * share), mode, collide, provide, only))
        key = "%s/%s%s%s" % ("collide" if collide else "distinct", mode, "+only" if (only and mode == "django" and not collide) else "",
                             "+provide" if provide > 0.5 else "")
        check_batch(chk, progs, tag, key, must)
        if tag in ("isod", "djad"):
            keep.extend(progs[: n // 2])
        if tag in ("isop", "djap"):
            keepp.extend(progs)
        if tag == "isod":
            keepf.extend(progs)
    nwf = check_fragment(chk, keep, "frag", "isolated", "wf_prog")
    nwf += check_fragment(chk, keep, "frdj", "django", "wf_prog_django", mode="django")
    nwf += check_fragment(chk, keepp, "frpr", "isolated+provide", "wf_prog_prov", keep=("provide",))
    # pass-through slots: programs that really have a slot tag inside a component-tag body first
    pt = sorted(keep, key=lambda p: "slot-in-fill" not in G.features(p))[: n // 2]
    chk.dist["fragment/isolated+passthrough:with-slot-in-fill"] += sum(1 for p in pt if "slot-in-fill" in G.features(p))
    nwf += check_fragment(chk, pt, "frpt", "isolated+passthrough", "wf_prog_pass", keep=("passthrough",))
    # loops at template level: programs of the isolated batch that keep a loop after the rewriting first (<= 90)
    def _has_loop(p):
        import c01m_util as U
        q = U.fragmentize(p, "isolated", ("for",))
        return any(t[0] == "for" for t in G.flatten(q["page"]) + [x for _, cd in q["lib"] for x in G.flatten(cd["tpl"])])
    fo = sorted(keepf, key=lambda p: not _has_loop(p))[: min(90, n // 2)]
    chk.dist["fragment/isolated+for:with-a-loop"] += sum(1 for p in fo if _has_loop(p))
    nwf += check_fragment(chk, fo, "frfo", "isolated+for", "wf_prog_for", keep=("for",))
    chk.assumptions = [
        "programs are drawn from the calculus of coq/Core/Syntax.v by harness/genprog.py (shared with C01/C03/C05); templates emit text "
        "without HTML elements; <!-- _RENDERED --> markers are stripped; expression evaluation of Django's engine (variables, dot lookup, "
        "truthiness, autoescaped printing, for over lists only) is modelled as in Core/Sem.v, not verified",
        "M renders children in place (deferred rendering = C14 PostRender); provide_cache entries are never deleted in M (their lifetime is "
        "C05's Provide model); CopiedDict sharing between snapshots is not represented (layers are only written while freshly pushed)",
        "runs that pass a SlotRef / internal object across a tag boundary as a value, or render a SlotRef after a deferred-render boundary, "
        "leave the modelled fragment (MUnsup): counted per batch, never compared",
        "exception classes are compared exactly when the program has at most one potential error source (else only 'raises'); an "
        "implementation RecursionError must correspond to M running out of fuel",
    ]
    return chk.finish(
        rule="genprog programs, %d per batch, small ones first: distinct names isolated / django / django with `only`; colliding names "
             "(collide=0.35) isolated / django; provide/inject in every second program, plus two provide-heavy half batches; plus C01's corpus, C01M's witnesses, and %d programs "
             "rewritten into the fragments of the refinement theorems (wf_prog / wf_prog_django / wf_prog_prov / wf_prog_pass / wf_prog_for true). implementation-vs-M must agree in EVERY batch; M-vs-S must "
             "agree in the distinct-name isolated, django (no `only`) and fragment batches and is counted elsewhere. Non-trivial = has a fill, "
             "a slot and a nested component. Distinct = distinct program text." % (n, nwf),
        explanation="theorems of Props/C01M.v re-checked (ctx_restored for all programs and both modes; component_context_cache privacy; M = S "
                    "for the isolated, django, isolated+provide, isolated+pass-through and isolated+for fragments, no bounds); M evaluated by vm_compute inside Coq on every program and compared with the "
                    "implementation's output and with S; wf p -> M p = S p also evaluated as a test on the fragment batches.",
        extra_trusted=["modelled, not verified: Django's template engine for text/variables/if/for/with; Python list insert/pop semantics "
                       "(Core/CtxStack.v py_insertZ/py_popZ); deferred rendering abstracted to in-place rendering (C14 PostRender)",
                       "harness/c01m_util.py fragmentize (only produces inputs; wf_prog is decided inside Coq)"])


def replay(path):
    import djsetup
    djsetup.setup()
    djsetup.patch_ids()
    r = json.load(open(path))
    prog = c01.fix_prog(r["case"]["program"])
    print(r.get("what"))
    print(json.dumps(describe(prog), indent=1))
    o = R.render_page(prog)
    print("implementation:", o)
    if not o[1].startswith("other:"):
        t = "(%s, %s)" % (G.c_prog(prog), R.c_outcome(o))
        print("implementation = M:", not coq_eval("rp", "core_case", "check_mech", [t]))
        print("M = S:", not coq_eval("rq", "prog", "check_ms", [G.c_prog(prog)]))
    return 0
