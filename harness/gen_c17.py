"""Constants of /repo the C17 theorems depend on -> coq/Gen/C17.v (regenerated on every run, fail-closed).

 * default_allowed / default_forbidden: app_settings.defaults.static_files_allowed / static_files_forbidden
 * generator_error: "" normally; if the defaults are not lists of suffix strings (or anything else has an unexpected shape) the
   error text is recorded here, the DOCUMENTED defaults are emitted instead, and `Example generator_anchor` fails: a broken proof
   obligation, never a crash - the run continues to the direct oracle, which judges default settings by the documented lists.
 * suffix_regex_probe: the regex TEXT that finders._is_path_valid compiles for the probe suffix ".a$b", observed by
   temporarily replacing the name `re` inside django_components.finders with a recording shim (no source hook).
   Finder/Proofs.v anchors it with `Example suffix_regex_anchor`, so an edit of the suffix->regex conversion breaks a
   proof obligation.
"""
import re as _re

from gen_constants import coq_str_list, generator
import common as C

PROBE = ".a$b"

# fall-back copy of the DOCUMENTED defaults (used only if the defaults object has an unexpected shape AND its docstrings cannot be parsed)
PINNED_ALLOWED = [".css", ".js", ".jsx", ".ts", ".tsx", ".apng", ".png", ".avif", ".gif", ".jpg", ".jpeg", ".jfif", ".pjpeg", ".pjp", ".svg",
                  ".webp", ".bmp", ".ico", ".cur", ".tif", ".tiff", ".eot", ".ttf", ".woff", ".otf", ".svg"]
PINNED_FORBIDDEN = [".html", ".django", ".dj", ".tpl", ".py", ".pyc"]
_CACHE = {}


def documented_defaults():
    """The default suffix lists as DOCUMENTED in the docstrings of ComponentsSettings.static_files_allowed / _forbidden
    ("A list of file extensions (including the leading dot)" ... "By default ...: ```python COMPONENTS = ComponentsSettings(...)```")."""
    import inspect
    from django_components import app_settings
    out = []
    try:
        src = inspect.getsource(app_settings)
    except Exception:  # noqa
        src = ""
    for name, pinned in (("static_files_allowed", PINNED_ALLOWED), ("static_files_forbidden", PINNED_FORBIDDEN)):
        m = _re.search(r"```python\s+COMPONENTS = ComponentsSettings\(\s+%s=\[(.*?)\]" % name, src, flags=_re.S)
        lst = _re.findall(r'"([^"\n]*)"', m.group(1)) if m else []
        out.append(lst if lst else list(pinned))
    return out[0], out[1]


def default_lists():
    """-> (allowed, forbidden, error). The lists of /repo's `defaults` object when they are lists of suffix strings (error '');
    otherwise the DOCUMENTED suffix lists plus an error text: the run goes on (direct oracle against the documented defaults)
    and the error text makes `Example generator_anchor` of Finder/Proofs.v fail (broken proof obligation) - never a crash."""
    if "v" not in _CACHE:
        from django_components.app_settings import defaults
        err = []
        try:
            allowed, forbidden = defaults.static_files_allowed, defaults.static_files_forbidden
            for name, lst in (("static_files_allowed", allowed), ("static_files_forbidden", forbidden)):
                if not isinstance(lst, (list, tuple)) or not all(isinstance(x, str) for x in lst):
                    err.append("defaults.%s is not a list of suffix strings: %.300r" % (name, lst))
        except Exception as e:  # noqa
            err.append("cannot read defaults: %r" % (e,))
        if err:
            da, df = documented_defaults()
            _CACHE["v"] = (da, df, "; ".join(err))
        else:
            _CACHE["v"] = (list(allowed), list(forbidden), "")
    return _CACHE["v"]


@generator
def gen_C17():
    import djsetup
    from django_components import finders
    allowed, forbidden, error = default_lists()

    compiled = []

    class Shim:
        def __getattr__(self, k):
            return getattr(_re, k)

        def compile(self, pattern, flags=0):
            compiled.append((pattern, int(flags)))
            return _re.compile(pattern, flags)

    old = finders.re
    finders.re = Shim()
    try:
        with djsetup.components_settings(static_files_allowed=[PROBE], static_files_forbidden=[]):
            f = finders.ComponentsFileSystemFinder.__new__(finders.ComponentsFileSystemFinder)
            f._is_path_valid("x")
    except Exception as e:  # noqa
        compiled.append(("<probe raised %r>" % (e,), -1))
    finally:
        finders.re = old
    texts = sorted({p for p, fl in compiled if isinstance(p, str)})
    flags = sorted({fl for p, fl in compiled})
    probe = texts[0] if len(texts) == 1 and flags == [0] else "<unexpected: %r>" % (compiled,)
    return ("Definition default_allowed : list str := %s.\n"
            "Definition default_forbidden : list str := %s.\n"
            "Definition suffix_regex_probe : str := %s.\n"
            "(* empty unless the generator met an unexpected shape in /repo (then the lists above are the DOCUMENTED defaults) *)\n"
            "Definition generator_error : str := %s.\n"
            % (coq_str_list(allowed), coq_str_list(forbidden), C.cstr(probe), C.cstr(error)))
