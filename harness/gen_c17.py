"""Constants of /repo the C17 theorems depend on -> coq/Gen/C17.v (regenerated on every run, fail-closed).

 * default_allowed / default_forbidden: app_settings.defaults.static_files_allowed / static_files_forbidden
 * suffix_regex_probe: the regex TEXT that finders._is_path_valid compiles for the probe suffix ".a$b", observed by
   temporarily replacing the name `re` inside django_components.finders with a recording shim (no source hook).
   Finder/Proofs.v anchors it with `Example suffix_regex_anchor`, so an edit of the suffix->regex conversion breaks a
   proof obligation.
"""
import re as _re

from gen_constants import coq_str_list, generator
import common as C

PROBE = ".a$b"


@generator
def gen_C17():
    import djsetup
    from django_components import finders
    from django_components.app_settings import defaults
    allowed, forbidden = defaults.static_files_allowed, defaults.static_files_forbidden
    for name, lst in (("static_files_allowed", allowed), ("static_files_forbidden", forbidden)):
        if not isinstance(lst, (list, tuple)) or not all(isinstance(x, str) for x in lst):
            raise C.HarnessError("gen_C17: defaults.%s is not a list of str: %r" % (name, lst))

    compiled = []

    class Shim:
        def __getattr__(self, k):
            return getattr(_re, k)

        def compile(self, pattern, flags=0):
            compiled.append((pattern, int(flags)))
            return _re.compile(pattern, flags)

    old = finders.re
    finders.re = Shim()
    try:
        with djsetup.components_settings(static_files_allowed=[PROBE], static_files_forbidden=[]):
            f = finders.ComponentsFileSystemFinder.__new__(finders.ComponentsFileSystemFinder)
            f._is_path_valid("x")
    finally:
        finders.re = old
    texts = sorted({p for p, fl in compiled if isinstance(p, str)})
    flags = sorted({fl for p, fl in compiled})
    probe = texts[0] if len(texts) == 1 and flags == [0] else "<unexpected: %r>" % (compiled,)
    return ("Definition default_allowed : list str := %s.\n"
            "Definition default_forbidden : list str := %s.\n"
            "Definition suffix_regex_probe : str := %s.\n"
            % (coq_str_list(allowed), coq_str_list(forbidden), C.cstr(probe)))
