"""C02 - tag arguments reach Python with exactly the values they denote.

M-model: coq/TagParse/Model.v (parse_tag) + coq/TagParse/Resolve.v (leaf text, resolve, flags, spreads, aggregation, binding)
S-model: coq/TagParse/Spec.v (grammar `arglist`, printer `print lay tag a`, denotation `denote`)
Theorems: coq/Props/C02.v (parse_print_denote: run_tag (print lay tag a) = denote a for every layout, full grammar, ...)
Direct oracle (independent of the models): argument lists are generated as STRUCTURES from the documented grammar; `Denoter`
computes the Python values they denote (leaves evaluated by Django's own FilterExpression / Template, containers and
spreads by Python list/dict semantics); every structure is printed in >= 8 layouts by `sprint` - the Python mirror of
Spec.print, the layout being a table position -> string (whitespace runs, line breaks, trailing commas, white space around
| and :, inside _( ), after * / **, trailing) - plus the other quote style where equivalent and with / without the
self-closing slash; every printing must hand exactly the denotation to Component.get_context_data and to a probe
BaseNode.render, and all printings of one structure must agree (metamorphic).
Correspondence, M: the text each tag hands to parse_tag + the leaf values -> run_tag == observed (args, kwargs, flags).
Correspondence, S: the structure + the layout table + that text + the leaf values -> inside Coq: arglist_ok, print == text,
denote == observed.
"""
import collections
import collections.abc
import json
import keyword
import types

import common as C
import c12_util as U
from common import cN, cZ, cstr, clist, cbool

IMPORTS = "From DJC Require Import Lib.Base TagParse.Model TagParse.Resolve."
IMPORTS_S = "From DJC Require Import Lib.Base TagParse.Model TagParse.Resolve TagParse.Spec TagParse.SCheck."

T_DENOTE = "c02-denotation"
T_LAYOUT = "c02-layout-dependence"
T_INVALID = "c02-invalid-combination-accepted"
T_SPREAD_FILTER = "c02-spread-with-filter"          # fixed 3b4a681: `...var|filter` was passed as ONE positional value instead of being spread
T_FLAG_VALUE = "c02-flag-name-as-keyword-value"     # fixed 2de8cc8: `key=only` (value text equal to a flag name) dropped the kwarg and set the flag
T_BACKSLASH = "c02-string-ending-in-backslash"      # fixed d29898a: "a\\\\" followed by more arguments raised TemplateSyntaxError (the \\" was taken for an escaped quote)

CTX = {"i": 5, "s": "str", "l": [1, 2, 3], "d": {"a": 1, "b": 2}, "n": None, "t": True, "o": {"k": "v w", "z": [7, 8]},
       "e": [], "q": "it's \"q\"", "only": "ONLY", "required": 9, "D": {"Aa": 1, "b-c": 2, "Cc": 3},
       "I": {1: "one", "k": 2},
       # mappings that are NOT dict subclasses (a top-level ...m spread means f(**m) for every collections.abc.Mapping) and iterables
       # that are not lists (f(*x) / [*x] take any iterable)
       "mp": types.MappingProxyType({"ma": 1, "mb": "two"}), "ud": collections.UserDict({"ua": [1], "ub-x": None}),
       "cm": collections.ChainMap({"ca": 1}, {"cb": 2, "ca": 9}), "od": collections.OrderedDict([("oa", 1), ("ob", 2)]),
       "tp": (4, "five"), "rg": range(3), "dk": {"ka": 1, "kb": 2}.keys(), "fs": frozenset([7])}

CORPUS = [
    {"body": "...d|default:d", "expect": [[], {"a": 1, "b": 2}], "trigger": T_SPREAD_FILTER},
    {"body": "...l|slice:':2'", "expect": [[1, 2], {}], "trigger": T_SPREAD_FILTER},
    {"body": "x=only", "expect": [[], {"x": "ONLY"}], "trigger": T_FLAG_VALUE},
    {"body": "a=[1, *l, [2, {'k': i|add:1}],] data-id=\"x\" attrs:class='c' attrs:@click.stop=s", "trigger": T_DENOTE,
     "expect": [[], {"a": [1, 1, 2, 3, [2, {"k": 6}]], "data-id": "x", "attrs": {"class": "c", "@click.stop": "str"}}]},
    {"body": 'x="a\\\\" y=1', "expect": [[], {"x": "a\\", "y": 1}], "trigger": T_BACKSLASH},
    {"body": '"C:\\\\" \'b\'', "expect": [["C:\\", "b"], {}], "trigger": T_BACKSLASH},
]


# ---------------------------------------------------------------------------------------------
# probes
# ---------------------------------------------------------------------------------------------
class Probes:
    def __init__(self):
        self.calls = []
        self.texts = []

    def install(self):
        from django_components import Component, registry
        from django_components.node import BaseNode
        from django_components.templatetags.component_tags import register as library
        import django_components.util.template_tag as tt
        probes = self

        class C02X(Component):
            template = "x"

            def get_context_data(self, *args, **kwargs):
                probes.calls.append(("component", list(args), dict(kwargs), None))
                return {}
        registry.register("c02x", C02X)

        class C02Probe(BaseNode):
            tag = "c02probe"
            end_tag = None
            allowed_flags = ["required", "only"]

            def render(self, context, *args, **kwargs):
                probes.calls.append(("probe", list(args), dict(kwargs), dict(self.flags)))
                return ""
        C02Probe.register(library)
        self.library, self.registry, self.tt = library, registry, tt
        self.orig_parse_tag = tt.parse_tag

        def recording_parse_tag(text, parser):
            probes.texts.append(text)
            return probes.orig_parse_tag(text, parser)
        tt.parse_tag = recording_parse_tag

    def uninstall(self):
        self.tt.parse_tag = self.orig_parse_tag
        self.library.tags.pop("c02probe", None)
        self.registry.unregister("c02x")

    def run(self, source, ctx):
        """-> ('ok', args, kwargs, flags, parse_text) | ('err', exception name, parse_text or None)"""
        from django.template import Template, Context
        self.calls.clear()
        self.texts.clear()
        try:
            Template(source).render(Context(dict(ctx)))
        except BaseException as e:  # noqa
            return ("err", type(e).__name__, self.texts[0] if self.texts else None)
        if len(self.calls) != 1:
            return ("err", "NoCall(%d)" % len(self.calls), self.texts[0] if self.texts else None)
        _, args, kwargs, flags = self.calls[0]
        return ("ok", args, kwargs, flags, self.texts[0])


T_HISTORY = "c02-meaning-depends-on-earlier-templates"
T_RERENDER = "c02-meaning-depends-on-earlier-renders"   # a compiled tag rendered again must re-evaluate its arguments in the CURRENT environment


class FilterLibs:
    """two tag libraries registered from the harness (no source hooks) whose filters overlap: `label` is defined by both,
    `onlya` by the first only, and the second shadows the builtin `upper`"""

    def install(self):
        from django.template import Library, engines
        self.eng = engines["django"].engine
        la, lb = Library(), Library()
        la.filter("label", lambda v: "A:%s" % v)
        lb.filter("label", lambda v: "B:%s" % v)
        la.filter("onlya", lambda v, arg="": "a(%s;%s)" % (v, arg))
        lb.filter("upper", lambda v: "b-upper(%s)" % v)
        self.eng.template_libraries["c02lib_a"] = la
        self.eng.template_libraries["c02lib_b"] = lb

    def uninstall(self):
        self.eng.template_libraries.pop("c02lib_a", None)
        self.eng.template_libraries.pop("c02lib_b", None)


LOADS = {"A": "{% load c02lib_a %}", "B": "{% load c02lib_b %}", "AB": "{% load c02lib_a %}{% load c02lib_b %}", "none": ""}
# (leaf expression with a hole for a unique literal, the load sets under which stock Django accepts it)
HISTORY_LEAVES = [('"h%d"|label', ("A", "B", "AB")), ('"h%d"|label|lower', ("A", "B", "AB")), ('"h%d"|onlya:"z"', ("A", "AB")),
                  ('"h%d"|upper', ("A", "B", "AB", "none")), ('"h%d"|lower|label', ("A", "B", "AB"))]
HISTORY_SHAPES = [("x=%s", lambda v: ([], {"x": v})), ("%s", lambda v: ([v], {})), ("x=[%s, 1]", lambda v: ([], {"x": [v, 1]})),
                  ("x={'k': %s}", lambda v: ([], {"x": {"k": v}})), ("...[%s]", lambda v: ([v], {})), ("a:b=%s", lambda v: ([], {"a": {"b": v}}))]


def history_trial(pr, n, leaf_tpl, ok_sets, shape, order):
    """the SAME argument text in templates that differ in their {% load %} line, rendered in the given order within this process;
    oracle = the stock {{ expr }} of the same template.  -> list of problems"""
    from django.template import Template, Context, TemplateSyntaxError
    leaf = leaf_tpl % n
    arg_tpl, expect = shape
    arg = arg_tpl % leaf
    problems, seq = [], []
    for ls in order:
        tag_src = LOADS[ls] + "{% c02probe " + arg + " / %}"
        seq.append(tag_src)
        if ls in ok_sets:
            stock = Template(LOADS[ls] + "{% autoescape off %}{{ " + leaf + " }}{% endautoescape %}").render(Context(dict(CTX)))
            res = pr.run(tag_src, CTX)
            exp = expect(stock)
            if res[0] != "ok" or not same(res[1], exp[0]) or not same(res[2], exp[1]):
                problems.append("%s hands %r to Python; stock {{ %s }} in the same template gives %r (templates rendered before it in this process: %r)"
                                % (tag_src, res[1:3], leaf, stock, seq[:-1]))
        else:
            try:
                Template(LOADS[ls] + "{{ " + leaf + " }}")
                problems.append("harness: stock {{ %s }} under %r did not raise" % (leaf, ls))
            except TemplateSyntaxError:
                pass
            res = pr.run(tag_src, CTX)
            if res[0] == "ok" or res[1] != "TemplateSyntaxError":
                problems.append("%s: the filter does not exist in this template (stock {{ %s }} raises TemplateSyntaxError) but the tag gives %r "
                                "(templates rendered before it in this process: %r)" % (tag_src, leaf, res[:3], seq[:-1]))
    return problems, seq


# stateful Django tags inside a quoted argument: every argument SITE has its own nodes, hence its own state (stock Django: every
# textual occurrence of a tag is an independent node)
STATEFUL_TEXTS = ["{% cycle 'odd' 'even' %}", "{% ifchanged i %}changed{% endifchanged %}", "{% cycle 'a' 'b' 'c' %}{{ i }}",
                  "{% cycle 'x' 'y' as cy silent %}{{ cy }}-{% cycle cy %}"]
SITE_FORMS = [("x=%s", lambda a, k: k["x"]), ("%s", lambda a, k: a[0]), ("x=[%s, 1]", lambda a, k: k["x"][0]),
              ("x={'k': %s}", lambda a, k: k["x"]["k"]), ("attrs:v=%s", lambda a, k: k["attrs"]["v"])]


def site_trial(pr, text, form1, form2, loop, kind):
    """the SAME quoted stateful text at two argument sites of ONE template; each site must receive what the same text gives as the only
    site of a fresh template, and what stock Django renders for the inner text in a loop of the same length.  -> (problems, sources)"""
    from django.template import Template, Context

    def site(form):
        arg = form[0] % ('"' + text + '"')
        tag = ("{% component 'c02x' " + arg + " / %}") if kind == "component" else ("{% c02probe " + arg + " / %}")
        return ("{% for r in l %}" + tag + "{% endfor %}") if loop else tag

    def values(src, forms):
        pr.calls.clear()
        Template(src).render(Context(dict(CTX)))
        n = len(CTX["l"]) if loop else 1
        if len(pr.calls) != n * len(forms):
            raise AssertionError("%d calls" % len(pr.calls))
        return [[forms[j][1](c[1], c[2]) for c in pr.calls[j * n:(j + 1) * n]] for j in range(len(forms))]
    both = site(form1) + "|" + site(form2)
    problems = []
    try:
        got = values(both, [form1, form2])
        alone = [values(site(form1), [form1])[0], values(site(form2), [form2])[0]]
        inner = ("{% for r in l %}" + text + "\x1f{% endfor %}") if loop else (text + "\x1f")
        stock = Template("{% autoescape off %}" + inner + "{% endautoescape %}").render(Context(dict(CTX))).split("\x1f")[:-1]
    except Exception as e:  # noqa
        return (["%s: %s: %s" % (both, type(e).__name__, e)], [both])
    for j in (0, 1):
        if not same(got[j], alone[j]):
            problems.append("site %d of %s receives %r; the same argument as the only site of a fresh template receives %r" % (j + 1, both, got[j], alone[j]))
        if not same([str(v) for v in got[j]], stock):
            problems.append("site %d of %s receives %r; stock Django renders the inner text as %r" % (j + 1, both, got[j], stock))
    return problems, [both, site(form1), site(form2)]


# render environments: (active language - Django's own catalogs translate Monday / yes,no,maybe / number formats -, Context.autoescape)
ENVS = [("en", True), ("de", True), ("fr", False), ("de", False), ("en", False), ("fr", True)]
# leaves whose value depends on the render environment although (most of them) contain no variable
ENV_LEAVES = ['_("Monday")', '_("Monday")|upper', '_("yes,no,maybe")|lower', '""|default:_("Tuesday")', '"<b>x</b> & y"|upper|linebreaksbr',
              '"see www.x.org <now>"|urlize', '1234.5|floatformat:2', 't|yesno', 'n|default_if_none:_("Wednesday")', '_("Monday")|add:s',
              '"{{ i }} <b>"', 's|default:"<i>"|linebreaksbr']
CTX2_CHANGES = {"i": 6, "s": "Other <s>", "t": False, "l": [9, 8, 7, 6], "q": "qq", "d": {"a": 10, "b": 20}, "e": [0]}


def stock_value(leaf, ctx, autoescape):
    """what stock Django gives for the expression in the CURRENT environment (fresh FilterExpression / Template, nothing retained)"""
    from django.template import Context, Template
    from django.template.base import FilterExpression
    if leaf.startswith('"{'):
        return Template(leaf[1:-1]).render(Context(dict(ctx), autoescape=autoescape))
    c = Context(dict(ctx), autoescape=autoescape)
    c.template = Template("")
    return FilterExpression(leaf, django_parser()).resolve(c)


def environment_trial(pr, leaf, shape, kind, envs):
    """ONE compiled template, rendered once per environment; every render must hand over what stock Django evaluates in THAT environment"""
    from django.template import Template, Context
    from django.utils import translation
    arg_tpl, expect = shape
    arg = arg_tpl % leaf
    src = ("{% component 'c02x' " + arg + " / %}") if kind == "component" else ("{% c02probe " + arg + " / %}")
    try:
        tpl = Template(src)
    except Exception as e:  # noqa
        return (["%s does not compile: %s" % (src, type(e).__name__)], src)
    problems, done = [], []
    for (lang, ae) in envs:
        ctx = dict(CTX, **CTX2_CHANGES) if (len(done) % 2 == 1) else dict(CTX)
        with translation.override(lang):
            exp = expect(stock_value(leaf, ctx, ae))
            pr.calls.clear()
            try:
                tpl.render(Context(dict(ctx), autoescape=ae))
                got = (pr.calls[0][1], pr.calls[0][2]) if len(pr.calls) == 1 else ("calls", len(pr.calls))
            except Exception as e:  # noqa
                got = ("err", type(e).__name__)
        done.append((lang, ae))
        if not (len(got) == 2 and isinstance(got[0], list) and same(got[0], exp[0]) and same(got[1], exp[1])):
            problems.append("%s rendered under %r (render no. %d of the same compiled template, earlier environments %r) hands %r to Python; stock Django "
                            "evaluates %s to %r there" % (src, (lang, ae), len(done), done[:-1], got, leaf, exp))
    return problems, src


def django_parser():
    from django.template import engines
    from django.template.base import Parser
    eng = engines["django"].engine
    return Parser([], eng.template_libraries, eng.template_builtins)


# ---------------------------------------------------------------------------------------------
# S side: structures, denotation, printing
# ---------------------------------------------------------------------------------------------
STR_CONTENTS = ["", "a", "hello world", "a=b", "[1, 2]", "{k: v}", "x|y:z", "*", "...", "%}", "a, b", " lead", "trail ", "été", "only", "/", "k:v",
                # white-space runs INSIDE a literal are significant: two blanks, tab, line break, padding
                "two  spaces", "tab\there", "line\nbreak", "  padded  ", " \t mixed \n run ", "x   y  z"]
WS_RUN_CONTENTS = ["two  spaces", "tab\there", "line\nbreak", "  padded  ", "x   y  z"]
QUOTEY = ["it's", 'say "hi"', "back\\slash", "C:\\", "\\\\", "q\\\""]
DYN_CONTENTS = ["{{ i }}", "{{ l }}", "{{ i }} {{ s }}", "x{{ s|upper }}", "{% lorem 2 w %}", "{# c #}z", "{{ d }}", "a {{ s }}  b", "  {{ i }}\t{{ i }}  "]
KEYS = ["key", "k2", "data-id", "@click", "x.y", "#id", "v-on", "class", "_p", "hx-get", "@a.b-c_d", "for"]
AGG = [("attrs", ["class", "@click.stop", "data-x", ":href", "a:b"]), ("js", ["on", "x-y"])]


def leaf_text(lf):
    """canonical text of a leaf = what it would be inside {{ }}"""
    k = lf["k"]
    if k == "var" or k == "num":
        base = lf["t"]
    elif k == "str":
        q = lf["q"]
        base = q + lf["c"].replace("\\", "\\\\").replace(q, "\\" + q) + q
    elif k == "trans":
        base = '_("' + lf["c"] + '")'
    elif k == "dyn":
        base = '"' + lf["c"] + '"'
    for (f, a) in lf.get("f", []):
        base += "|" + f + ("" if a is None else ":" + leaf_text(a))
    return base


def gen_leaf(rng, filters=True, key=False):
    r = rng.random()
    if key:
        lf = rng.choice([{"k": "str", "c": rng.choice(["k", "a", "b", "z", "k", "a b", "x-y", "1", "été"]), "q": rng.choice("\"'")},
                         {"k": "num", "t": str(rng.choice([0, 1, 7]))}, {"k": "var", "t": rng.choice(["s", "i", "o.k"])}])
        if rng.random() < 0.15 and lf["k"] != "num":
            lf["f"] = [(rng.choice(["upper", "lower"]) if lf["k"] == "str" or lf["t"] != "i" else "add", None)]
            if lf["f"][0][0] == "add":
                lf.pop("f")
        return lf
    if r < 0.3:
        lf = {"k": "var", "t": rng.choice(["i", "s", "l", "d", "n", "t", "o.k", "o.z.0", "l.1", "e", "q", "i", "s", "tp", "mp", "rg", "ud"])}
    elif r < 0.42:
        lf = {"k": "num", "t": str(rng.choice([0, 1, 42, -3]))}
    elif r < 0.8:
        c = rng.choice(STR_CONTENTS + QUOTEY)
        lf = {"k": "str", "c": c, "q": rng.choice("\"'")}
    elif r < 0.88:
        lf = {"k": "trans", "c": rng.choice(["hi", "a b", "x|y", "two  blanks", " pad "])}
    else:
        lf = {"k": "dyn", "c": rng.choice(DYN_CONTENTS)}
    if filters and rng.random() < 0.3 and lf["k"] in ("var", "str", "num", "trans"):
        t = lf.get("t")
        if lf["k"] in ("str", "trans") or t in ("s", "o.k", "q"):
            lf["f"] = [rng.choice([("upper", None), ("lower", None), ("default", {"k": "str", "c": "x y", "q": '"'}), ("cut", {"k": "str", "c": " ", "q": "'"})])]
        elif lf["k"] == "num" or t in ("i", "l.1", "o.z.0"):
            lf["f"] = [("add", {"k": "num", "t": "2"})] + ([("add", {"k": "var", "t": "i"})] if rng.random() < 0.3 else [])
        elif t in ("l", "e"):
            lf["f"] = [rng.choice([("length", None), ("join", {"k": "str", "c": ", ", "q": '"'}), ("default", {"k": "var", "t": "l"})])]
        elif t in ("n",):
            lf["f"] = [("default_if_none", {"k": "str", "c": "dflt", "q": '"'})]
    return lf


def gen_value(rng, depth):
    r = rng.random()
    if depth <= 0 or r < 0.55:
        return {"k": "leaf", "leaf": gen_leaf(rng)}
    if r < 0.8:
        items = []
        for _ in range(rng.randint(0, 4)):
            x = rng.random()
            if x < 0.15:
                items.append({"k": "spread", "v": {"k": "leaf", "leaf": {"k": "var", "t": rng.choice(["l", "e", "s", "l", "tp", "rg", "dk", "mp", "fs"])}}})
            elif x < 0.25:
                items.append({"k": "spread", "v": gen_list(rng, depth - 1)})
            else:
                items.append(gen_value(rng, depth - 1))
        return {"k": "list", "items": items}
    return gen_dict(rng, depth)


def gen_list(rng, depth):
    return {"k": "list", "items": [gen_value(rng, depth - 1) for _ in range(rng.randint(0, 3))]}


def gen_dict(rng, depth):
    ents = []
    for _ in range(rng.randint(0, 3)):
        x = rng.random()
        if x < 0.15:
            ents.append({"k": "spread", "v": {"k": "leaf", "leaf": {"k": "var", "t": rng.choice(["d", "o", "d", "mp", "ud", "cm", "od"])}}})
        elif x < 0.25:
            ents.append({"k": "spread", "v": gen_dict(rng, depth - 1)})
        else:
            ents.append({"k": "pair", "key": gen_leaf(rng, key=True), "v": gen_value(rng, depth - 1)})
    return {"k": "dict", "ents": ents}


def gen_arglist(rng, flags):
    """positional part, keyword part, flags; keys distinct; dict spreads contribute the keys a, b (d) at most once"""
    args = []
    for _ in range(rng.randint(0, 3)):
        x = rng.random()
        if x < 0.15:
            args.append({"k": "aspread", "v": {"k": "leaf", "leaf": {"k": "var", "t": rng.choice(["l", "e", "l", "tp", "rg", "dk", "fs", "s"])}}})
        elif x < 0.22:
            args.append({"k": "aspread", "v": gen_list(rng, 1)})
        else:
            args.append({"k": "pos", "v": gen_value(rng, 3 if rng.random() < 0.25 else 2)})
    keys = rng.sample(KEYS, rng.randint(0, 4))
    kws = [{"k": "kw", "key": k, "v": gen_value(rng, 3 if rng.random() < 0.25 else 2)} for k in keys]
    if rng.random() < 0.3:
        outer, inners = rng.choice(AGG)
        for inner in rng.sample(inners, rng.randint(1, min(3, len(inners)))):
            kws.append({"k": "kw", "key": outer + ":" + inner, "v": gen_value(rng, 1)})
    if rng.random() < 0.2:
        kws.append({"k": "aspread", "v": {"k": "leaf", "leaf": {"k": "var", "t": rng.choice(["d", "d", "D", "mp", "ud", "cm", "od"])}}})
    elif rng.random() < 0.1:
        kws.append({"k": "aspread", "v": {"k": "dict", "ents": [{"k": "pair", "key": {"k": "str", "c": "lit", "q": '"'}, "v": gen_value(rng, 1)}]}})
    if rng.random() < 0.2:
        # a translation with a filter (positional or keyword: in a component tag the positional form makes Token.split_contents() give up and
        # the tag_fn fall back to another splitter) NEXT TO literals whose inner white-space runs must survive the re-join of the bits
        tr = {"k": "leaf", "leaf": {"k": "trans", "c": rng.choice(["hi", "a b"]), "f": [rng.choice([("upper", None), ("lower", None), ("cut", {"k": "str", "c": " ", "q": "'"})])]}}
        if rng.random() < 0.7:
            args.insert(rng.randint(0, len(args)), {"k": "pos", "v": tr})
        else:
            kws.append({"k": "kw", "key": "tr-k", "v": tr})
        ws = {"k": "str", "c": rng.choice(WS_RUN_CONTENTS), "q": rng.choice("\"'")}
        kws.append({"k": "kw", "key": "ws-k", "v": rng.choice([{"k": "leaf", "leaf": ws}, {"k": "list", "items": [{"k": "leaf", "leaf": ws}]},
                                                             {"k": "leaf", "leaf": {"k": "dyn", "c": rng.choice(["a {{ s }}  b", "  {{ i }}\t{{ i }}  "])}}])})
        if rng.random() < 0.5:
            args.append({"k": "pos", "v": {"k": "leaf", "leaf": {"k": "str", "c": rng.choice(WS_RUN_CONTENTS), "q": rng.choice("\"'")}}})
    rng.shuffle(kws)
    fl = [f for f in flags if rng.random() < 0.2]
    items = args + kws
    for f in fl:
        items.insert(rng.randint(0, len(items)), {"k": "flag", "name": f})
    return {"items": items, "slash": rng.random() < 0.5}


class Denoter:
    def __init__(self, ctx, autoescape=True):
        from django.template import Context
        from django.template import Template
        self.parser = django_parser()
        self.ctx = Context(dict(ctx), autoescape=autoescape)
        self.ctx.template = Template("")

    def leaf(self, lf):
        from django.template import Template
        from django.template.base import FilterExpression, VariableNode
        if lf["k"] == "dyn":
            t = Template(lf["c"])
            if len(t.nodelist) == 1:
                n = t.nodelist[0]
                return n.filter_expression.resolve(self.ctx) if isinstance(n, VariableNode) else n.render(self.ctx)
            return t.render(self.ctx)
        return FilterExpression(leaf_text(lf), self.parser).resolve(self.ctx)

    def value(self, v):
        if v["k"] == "leaf":
            return self.leaf(v["leaf"])
        if v["k"] == "list":
            out = []
            for it in v["items"]:
                if it["k"] == "spread":
                    out.extend(self.value(it["v"]))
                else:
                    out.append(self.value(it))
            return out
        out = {}
        for en in v["ents"]:
            if en["k"] == "spread":
                out.update(self.value(en["v"]))
            else:
                out[self.leaf(en["key"])] = self.value(en["v"])
        return out

    def arglist(self, al):
        args, kwargs, agg, flags = [], {}, {}, set()
        for it in al["items"]:
            if it["k"] == "pos":
                args.append(self.value(it["v"]))
            elif it["k"] == "kw":
                key = it["key"]
                if ":" in key and not key.startswith(":"):
                    o, i = key.split(":", 1)
                    agg.setdefault(o, {})[i] = self.value(it["v"])
                else:
                    kwargs[key] = self.value(it["v"])
            elif it["k"] == "aspread":
                val = self.value(it["v"])
                if isinstance(val, collections.abc.Mapping):      # f(**val): any mapping, not only dict
                    kwargs.update(val)
                else:                                             # f(*val): any other iterable
                    args.extend(val)
            else:
                flags.add(it["name"])
        kwargs.update(agg)
        return args, kwargs, flags


# ---------------------------------------------------------------------------------------------
# the S structure (mirror of coq/TagParse/Spec.v) and its printer
# ---------------------------------------------------------------------------------------------
WSCH = " \t\n\r\f"


def s_atom(lf):
    k = lf["k"]
    if k in ("var", "num"):
        return ("var", lf["t"])
    if k == "str":
        q = lf["q"]
        return ("str", q, lf["c"].replace("\\", "\\\\").replace(q, "\\" + q))
    if k == "trans":
        return ("trans", '"', lf["c"])
    return ("str", '"', lf["c"])        # nested template string


def s_leaf(lf):
    return (s_atom(lf), [(f, None if a is None else s_atom(a)) for (f, a) in lf.get("f", [])])


def s_val(v):
    if v["k"] == "leaf":
        return ("leaf", s_leaf(v["leaf"]))
    if v["k"] == "list":
        return ("list", [(True, s_val(it["v"])) if it["k"] == "spread" else (False, s_val(it)) for it in v["items"]])
    return ("dict", [(None, s_val(en["v"])) if en["k"] == "spread" else (s_leaf(en["key"]), s_val(en["v"])) for en in v["ents"]])


def s_items(al):
    out = []
    for it in al["items"]:
        if it["k"] == "pos":
            out.append(("pos", s_val(it["v"])))
        elif it["k"] == "kw":
            out.append(("kw", it["key"], s_val(it["v"])))
        elif it["k"] == "aspread":
            out.append(("spread", s_val(it["v"])))
        else:
            out.append(("flag", it["name"]))
    return out


LAY_CHOICES = ["", "", "", " ", " ", "  ", "\t", "\n", " \n  ", "\r\n", "\f ", "x", "x \n"]


class Lay:
    """layout = table path -> string, filled lazily from rng (canonical: everything empty); mirrors Spec.layout"""

    def __init__(self, rng, table=None, path=()):
        self.rng, self.table, self.path = rng, ({} if table is None else table), path

    def sub(self, i):
        return Lay(self.rng, self.table, self.path + (i,))

    def raw(self, i):
        p = self.path + (i,)
        if p not in self.table:
            self.table[p] = "" if self.rng is None else self.rng.choice(LAY_CHOICES)
        return self.table[p]

    def w0(self, i):
        return "".join(c for c in self.raw(i) if c in WSCH)

    def w1(self, i):
        return self.w0(i) or " "

    def opt(self, i):
        return self.raw(i) != ""


def sp_atom(lay, a):
    if a[0] == "var":
        return a[1]
    if a[0] == "str":
        return a[1] + a[2] + a[1]
    return "_(" + lay.w0(0) + a[1] + a[2] + a[1] + lay.w0(1) + ")"


def sp_filters(lay, fs):
    out = ""
    for (name, arg) in fs:
        out += lay.w0(0) + "|" + lay.w0(1) + name
        if arg is not None:
            out += lay.w0(2) + ":" + lay.w0(3) + sp_atom(lay.sub(4), arg)
        lay = lay.sub(5)
    return out


def sp_leaf(lay, l):
    return sp_atom(lay.sub(0), l[0]) + sp_filters(lay.sub(1), l[1])


def sp_val(lay, v):
    if v[0] == "leaf":
        return sp_leaf(lay, v[1])
    if v[0] == "list":
        return "[" + lay.w0(0) + sp_entries(lay.sub(1), v[1], False) + "]"
    return "{" + lay.w0(0) + sp_entries(lay.sub(1), v[1], True) + "}"


def sp_entries(lay, ents, is_dict):
    out = ""
    for n, (k, x) in enumerate(ents):
        if is_dict:
            if k is not None:
                out += sp_leaf(lay.sub(6), k) + lay.w0(7) + ":" + lay.w0(8)
            else:
                out += "**" + (lay.w0(0) if x[0] == "leaf" else "")
        elif k:
            out += "*" + (lay.w0(0) if x[0] == "leaf" else "")
        out += sp_val(lay.sub(1), x) + lay.w0(2)
        if n == len(ents) - 1:
            out += ("," + lay.w0(4)) if lay.opt(3) else ""
        else:
            out += "," + lay.w0(4)
        lay = lay.sub(5)
    return out


def sp_item(lay, it):
    if it[0] == "pos":
        return sp_val(lay, it[1])
    if it[0] == "kw":
        return it[1] + "=" + sp_val(lay, it[2])
    if it[0] == "spread":
        return "..." + sp_val(lay, it[1])
    return it[1]


def sp_items(lay, items):
    out = ""
    for it in items:
        out += lay.w1(0) + sp_item(lay.sub(1), it)
        lay = lay.sub(2)
    return out


def sprint_args(lay, items, slash):
    """everything after the tag name: mirror of Spec.print without the leading tag"""
    return sp_items(lay.sub(0), items + ([("flag", "/")] if slash else [])) + lay.w0(2)


def swap_quotes(x):
    """the same structure written with the other quote character wherever the body has neither a quote nor a backslash"""
    if isinstance(x, dict):
        y = {k: swap_quotes(v) for k, v in x.items()}
        if y.get("k") == "str" and not any(ch in y["c"] for ch in "'\"\\"):
            y["q"] = "'" if y["q"] == '"' else '"'
        return y
    if isinstance(x, list):
        return [swap_quotes(v) for v in x]
    if isinstance(x, tuple):
        return tuple(swap_quotes(v) for v in x)
    return x


# Coq terms of the S structure
def c_atom(a):
    if a[0] == "var":
        return "(AVar %s)" % cstr(a[1])
    return "(%s %s %s)" % ("AStr" if a[0] == "str" else "ATrans", cN(ord(a[1])), cstr(a[2]))


def c_leaf(l):
    return "(mkleaf %s %s)" % (c_atom(l[0]), clist(["(%s, %s)" % (cstr(n), "None" if a is None else "(Some %s)" % c_atom(a)) for n, a in l[1]]))


def c_val(v):
    if v[0] == "leaf":
        return "(SLeaf %s)" % c_leaf(v[1])
    if v[0] == "list":
        return "(SList %s)" % clist(["(%s, %s)" % (cbool(sp), c_val(x)) for sp, x in v[1]])
    return "(SDict %s)" % clist(["(%s, %s)" % ("None" if k is None else "(Some %s)" % c_leaf(k), c_val(x)) for k, x in v[1]])


def c_item(it):
    if it[0] == "pos":
        return "(IPos %s)" % c_val(it[1])
    if it[0] == "kw":
        return "(IKw %s %s)" % (cstr(it[1]), c_val(it[2]))
    if it[0] == "spread":
        return "(ISpread %s)" % c_val(it[1])
    return "(IFlag %s)" % cstr(it[1])


def c_table(table):
    return clist(["(%s, %s)" % (clist(["%d%%nat" % i for i in p]), cstr(sv)) for p, sv in sorted(table.items()) if sv != ""])


def adjust_table(table, kind):
    """the layout of the text parse_tag receives: Django strips the tag contents (no trailing white space); the component
    tag_fn additionally re-joins Token.split_contents() with single spaces (every white-space run outside quotes -> ' ')"""
    out = {}
    for p, sv in table.items():
        if p == (2,):
            continue
        if kind == "component":
            ws = "".join(c for c in sv if c in WSCH)
            out[p] = " " if ws else ("x" if sv else "")
        else:
            out[p] = sv
    return out


INVALID = [  # documented as invalid -> TemplateSyntaxError, never re-interpreted
    "k=...d", "a=[...l]", "a={...d}", "a=[**d]", "a={*l}", "a={'k': **d}", "a={**d: 1}", "a=l|...d", "a=s|*l", "a={'k': ...d}",
    "a=[1, 2", "a={'k': 1", "a={'k'}", "a={'k': 1, 'j'}", "a={[1]: 2}", "a={{'x': 1}: 2}", "a=[1]]", "a=1,", "a=|upper", "a=s|:x",
    "...", "... d", "a={'k':: 1}", "a={:1}", "a=_('x", "only only",
    "attrs:x=1 attrs=d", "attrs=d attrs:x=1", "a=[[...l]]", "a=[{*l}]", "a={'k': [**d]}", "a=s | ...d", "**d", "*l",
]

EXPLORE = [  # outside the statement / undocumented: reported in the evidence, never an alarm
    "k = 1", "a=[1 2]", ":href=1", "a=[* [1, 2]]", "a={** {'x': 1}}", "a={**d|default:d}", "a=[1,,2]", "data-id=1 data-id=2", "a={'k' 1}",
    "...I y=2", "x=1 ...I", "a={**I}", "a=[*d]", "x=/",
    # the implementation spreads ANY iterable of pairs with ** (dict.update) where Python's {**x} demands a mapping; both models follow the code
    "a={**e}", "a={**l}", "a={**s}", "a={**n}", "a={'k': 1, **[['k', 2], 'ab']}", "a={**o.none}",
]
EXPLORE_NOMODEL = []


# ---------------------------------------------------------------------------------------------
# Coq printers
# ---------------------------------------------------------------------------------------------
class Other:
    def __init__(self):
        self.ids = {}

    def id(self, v):
        k = (type(v).__name__, repr(v))
        return self.ids.setdefault(k, len(self.ids))


def value_term(v, oth):
    if isinstance(v, bool):
        return "(VBool %s)" % cbool(v)
    if isinstance(v, int):
        return "(VInt %s)" % cZ(v)
    if v is None:
        return "VNone"
    if isinstance(v, str):
        return "(VStr %s)" % cstr(str(v))
    if isinstance(v, (list, tuple)):
        return "(VList %s)" % clist([value_term(x, oth) for x in v])
    if isinstance(v, collections.abc.Mapping):          # dict, MappingProxyType, UserDict, ChainMap, ...: canonical form = its items
        return "(VDict %s)" % clist(["(%s, %s)" % (value_term(k, oth), value_term(x, oth)) for k, x in v.items()])
    if isinstance(v, (range, collections.abc.Set, collections.abc.KeysView, collections.abc.ValuesView)):   # non-list iterables
        return "(VList %s)" % clist([value_term(x, oth) for x in v])
    return "(VOther %s)" % cN(oth.id(v))


COMPILE_FAILED = [False]      # set by build_env: some leaf of the text does not even compile (unknown filter, empty expression, ...)


def build_env(text, ctx, oth):
    """leaf text -> value, by compiling every leaf of the implementation's AST with Django (None when a leaf fails)."""
    from django.template import Context
    from django_components.util.tag_parser import parse_tag, TagValue
    parser = django_parser()
    COMPILE_FAILED[0] = False
    try:
        _, attrs = parse_tag(text, parser)
    except Exception:  # noqa
        return []
    env, todo = {}, [a.value for a in attrs]
    from django.template import Template
    c = Context(dict(ctx))
    c.template = Template("")           # FilterExpression.resolve reads context.template.engine.string_if_invalid
    while todo:
        n = todo.pop()
        if isinstance(n, TagValue):
            s = n.serialize()
            if n.is_spread:
                s = s[len(n.parts[0].spread):]
            if s not in env:
                try:
                    n.compile(parser)
                except Exception:  # noqa
                    env[s] = "None"
                    COMPILE_FAILED[0] = True
                    continue
                try:
                    env[s] = "(Some %s)" % value_term(n.resolve(c), oth)
                except Exception:  # noqa
                    env[s] = "None"
        else:
            todo.extend(n.entries)
    return ["(%s, %s)" % (cstr(k), v) for k, v in env.items()]


RERR = {"TemplateSyntaxError": "ETemplateSyntax", "TypeError": "EType", "ValueError": "EValue", "SyntaxError": "ESyntax", "IndexError": "EIndex"}


def case_term(tag, allowed, text, ctx, res, closed):
    oth = Other()
    env = build_env(text, ctx, oth)
    if res[0] == "ok":
        _, args, kwargs, flags, _ = res
        fl = [f for f, on in (flags or {}).items() if on]
        out = "RGot %s %s %s %s" % (clist([value_term(a, oth) for a in args]),
                                    clist(["(%s, %s)" % (value_term(k, oth), value_term(v, oth)) for k, v in kwargs.items()]),
                                    clist([cstr(f) for f in fl]), cbool(closed))
    else:
        out = "RFail %s" % ("EAny" if COMPILE_FAILED[0] else RERR.get(res[1], "EOther"))
    return "(mkrcase %s %s %s %s (%s))" % (cstr(tag), clist([cstr(a) for a in allowed]), clist(env), cstr(text), out)


# ---------------------------------------------------------------------------------------------
def same(a, b):
    """Python equality, but type-strict for bool/int/str so that 1 vs True vs '1' differ."""
    if type(a) is not type(b) and not (isinstance(a, str) and isinstance(b, str)) and not (isinstance(a, (list, tuple)) and isinstance(b, (list, tuple))):
        return False
    if isinstance(a, (list, tuple)):
        return len(a) == len(b) and all(same(x, y) for x, y in zip(a, b))
    if isinstance(a, dict):
        return set(a.keys()) == set(b.keys()) and all(same(a[k], b[k]) for k in a)
    return a == b


def classify(al_text, items=None):
    """decidable trigger class of a failing input"""
    import re
    if re.search(r"(^|\s)\.\.\.[^\s|]*\s*\|", al_text):
        return T_SPREAD_FILTER
    if re.search(r"(^|\s)[^\s=]+=(only|required)(\s|$)", al_text):
        return T_FLAG_VALUE
    if re.search(r"\\\\[\"']\s+\S", al_text):          # ...\\" more : a string literal ending in an escaped backslash, then more text
        return T_BACKSLASH
    return T_DENOTE


def sources_exact(kind, body, slash):
    """the source of a generated case (body starts with its own white space)"""
    head = "component 'c02x'" if kind == "component" else "c02probe"
    return "{% " + head + body + " %}" + ("" if (slash or kind == "probe") else "{% endcomponent %}")


def sources(kind, body, slash):
    if kind == "component":
        return "{% component 'c02x' " + body + " %}" + ("" if slash else "{% endcomponent %}")
    return "{% c02probe " + body + " %}"


def run(tier, seed):
    import djsetup
    djsetup.setup()
    import gen_constants
    gen_constants.generate(["C12"])          # Props/C02.v anchors the scanner constants of the current source
    chk = C.Check("C02", tier, seed)
    chk.prove()
    thorough = tier == "thorough"
    rng = chk.rng
    pr = Probes()
    pr.install()
    terms, cases = [], []
    sterms, scases = [], []
    rerender = []

    def spec_case(kind, body, slash, items, table, res):
        """S-model case: structure + layout table (as parse_tag sees it) + parse text + observed values"""
        text = res[-1] if res[0] == "ok" else res[2]
        if text is None:
            return
        tag, allowed = ("component", ["only"]) if kind == "component" else ("c02probe", ["required", "only"])
        oth = Other()
        env = build_env(text, CTX, oth)
        if res[0] == "ok":
            fl = [f for f, on in (res[3] or {}).items() if on]
            out = "RGot %s %s %s %s" % (clist([value_term(a, oth) for a in res[1]]),
                                        clist(["(%s, %s)" % (value_term(k, oth), value_term(v, oth)) for k, v in res[2].items()]),
                                        clist([cstr(f) for f in fl]), cbool(slash))
        else:
            out = "RFail %s" % ("EAny" if COMPILE_FAILED[0] else RERR.get(res[1], "EOther"))
        sterms.append("(mkscase %s %s %s %s (mkarglist %s %s) %s (%s) %s)" % (
            cstr(tag), clist([cstr(a) for a in allowed]), clist(env), c_table(adjust_table(table, kind)),
            clist([c_item(it) for it in items]), cbool(slash), cstr(text), out, cbool(kind == "probe")))
        scases.append({"kind": kind, "body": body, "slash": slash, "parse_text": text, "level": "S"})

    def model_case(kind, body, slash, res):
        text = res[-1] if res[0] == "ok" else res[2]
        if text is None:
            return
        tag, allowed = ("component", ["only"]) if kind == "component" else ("c02probe", ["required", "only"])
        if res[0] == "ok" and kind == "component":
            res = ("ok", res[1], res[2], None, res[4])
        try:
            t = case_term(tag, allowed, text, CTX, res, slash or kind == "probe")
        except RecursionError:
            return
        # (flags are not observable at get_context_data: `chk` below lets the model's own flags through for the component tag)
        terms.append(t)
        cases.append({"kind": kind, "body": body, "slash": slash, "parse_text": text})
    try:
        den = Denoter(CTX)
        # ---- 0. corpus ----
        import glob
        import os
        corpus = list(CORPUS) + [json.load(open(f)) for f in sorted(glob.glob(os.path.join(C.VERIF, "corpus", "C02", "*.json")))]
        for c in corpus:
            for kind in ("component", "probe"):
                res = pr.run(sources(kind, c["body"] + " /", True), CTX)
                chk.count(("corpus", kind, c["body"]), True, kind="corpus")
                exp = c["expect"]
                if res[0] != "ok" or not same(res[1], exp[0]) or not same(res[2], exp[1]):
                    chk.fail(c["trigger"], "{%% %s %s %%} hands %r to Python, its arguments denote %r" % (kind, c["body"], res[1:3], exp),
                             {"kind": kind, "body": c["body"], "observed": repr(res[:3]), "expected": exp})
                model_case(kind, c["body"] + " /", True, res)
        # ---- 1. documented grammar x layouts ----
        n_struct = 2500 if thorough else 300
        n_lay = 10 if thorough else 8
        n_fail_lay = 0
        for si in range(n_struct):
            kind = "component" if si % 2 == 0 else "probe"
            flags = ["only"] if kind == "component" else ["required", "only"]
            al = gen_arglist(rng, flags)
            try:
                exp_args, exp_kwargs, exp_flags = den.arglist(al)
            except Exception:  # noqa - a structure whose denotation is itself an error (e.g. *s of an int): skip
                chk.dist["denotation-undefined"] += 1
                continue
            seen_res, canon = None, None
            for li in range(n_lay):
                # layout li: 0 = canonical; odd ones also use the other quote style where equivalent; the last two flip the slash
                al_l = swap_quotes(al) if li % 2 == 1 else al
                slash = (not al["slash"]) if li >= n_lay - 2 else al["slash"]
                lay = Lay(None if li == 0 else rng)
                items = s_items(al_l)
                body = sprint_args(lay, items, slash)
                if li == 0:
                    canon = body
                head = "component 'c02x'" if kind == "component" else "c02probe"
                src = "{% " + head + body + " %}" + ("" if (slash or kind == "probe") else "{% endcomponent %}")
                res = pr.run(src, CTX)
                nontriv = any(ch in body for ch in "[{|*.") or "=" in body
                chk.count(("arglist", kind, body), nontriv, kind="grammar-" + kind,
                          sample={"tag": kind, "body": body, "received": repr(res[1:3])} if (li == 3 and si % 40 == 0) else None)
                ok = res[0] == "ok" and same(res[1], exp_args) and same(res[2], exp_kwargs) and \
                    (kind == "component" or {f for f, on in res[3].items() if on} == exp_flags)
                if not ok:
                    chk.fail(classify(body), "tag hands %r to Python; its arguments denote %r" % (res[1:4], (exp_args, exp_kwargs, sorted(exp_flags))),
                             {"kind": kind, "body": body, "slash": slash, "structure": al_l, "observed": repr(res[:4]),
                              "expected": repr((exp_args, exp_kwargs, sorted(exp_flags)))})
                if seen_res is not None and (res[0] != seen_res[0] or (res[0] == "ok" and not (same(res[1], seen_res[1]) and same(res[2], seen_res[2])))):
                    n_fail_lay += 1
                    chk.fail(T_LAYOUT if ok or seen_res[0] == "ok" else classify(body), "two layouts of the same argument list give different results",
                             {"kind": kind, "body": body, "canonical": canon, "observed": repr(res[:3]), "canonical_observed": repr(seen_res[:3])})
                if li == 0:
                    seen_res = res
                if li == 1:
                    rerender.append((kind, body, slash, res, al_l))
                if li < 3 or li == n_lay - 1:
                    model_case(kind, body, slash, res)
                spec_case(kind, body, slash, items, lay.table, res)
        # ---- 2. documented-invalid combinations ----
        for body in INVALID:
            for kind in ("component", "probe"):
                for b2 in (body, "x=1 " + body, body + " y=2"):
                    res = pr.run(sources(kind, b2 + " /", True), CTX)
                    chk.count(("invalid", kind, b2), True, kind="invalid")
                    if res[0] == "ok" or res[1] != "TemplateSyntaxError":
                        chk.fail(T_INVALID, "invalid combination %r is not refused with TemplateSyntaxError: %r" % (b2, res[:3]),
                                 {"kind": kind, "body": b2, "observed": repr(res[:3])})
                    model_case(kind, b2 + " /", True, res)
        # ---- 3. exploration outside the statement + mutations: model == implementation only ----
        explore = {}
        for body in EXPLORE + EXPLORE_NOMODEL:
            res = pr.run(sources("probe", body, True), CTX)
            explore[body] = repr(res[:3])
            chk.count(("explore", body), True, kind="explore")
            if body not in EXPLORE_NOMODEL:
                model_case("probe", body, True, res)
        chk.extra["outside_statement_observed"] = explore
        for _ in range(6000 if thorough else 700):
            al = gen_arglist(rng, ["required", "only"])
            body = U.mutate(rng, sprint_args(Lay(rng), s_items(al), al["slash"]), n=rng.randint(1, 2))
            if "%}" in body:      # a mutated quote may let `%}` end the tag early; what follows is then template text, not a tag argument
                continue
            res = pr.run(sources("probe", body, True), CTX)
            chk.count(("mutation", body), True, kind="mutation-" + ("ok" if res[0] == "ok" else res[1]))
            if res[0] == "err" and res[1] not in ("TemplateSyntaxError", "TypeError", "ValueError", "SyntaxError", "VariableDoesNotExist", "KeyError", "AttributeError"):
                chk.dist["mutation-unusual-exception-" + res[1]] += 1
            model_case("probe", body, True, res)
        # ---- 4. history: the meaning of an argument must not depend on what was compiled / rendered before in this process ----
        import itertools
        libs = FilterLibs()
        libs.install()
        try:
            n = 0
            for leaf_tpl, ok_sets in HISTORY_LEAVES:
                for si, shape in enumerate(HISTORY_SHAPES):
                    orders = list(itertools.permutations(["A", "B", "none"])) if (thorough or si == 0) else [rng.choice(list(itertools.permutations(["A", "B", "none", "AB"], 3)))]
                    for order in orders:
                        n += 1
                        problems, seq = history_trial(pr, n, leaf_tpl, ok_sets, shape, order)
                        chk.count(("history", leaf_tpl, shape[0], order), True, kind="history-filter-libraries")
                        if problems:
                            chk.fail(T_HISTORY, problems[0], {"kind": "history", "sources": seq, "problems": problems[:4]})
            # the same STATEFUL nested-template text at two argument sites of one template: sites are independent
            for text in STATEFUL_TEXTS:
                for loop in (True, False):
                    for kind in ("probe", "component"):
                        pairs = [(SITE_FORMS[0], SITE_FORMS[0]), (SITE_FORMS[0], rng.choice(SITE_FORMS[1:])), (rng.choice(SITE_FORMS), rng.choice(SITE_FORMS))]
                        for f1, f2 in (pairs + [(a, b) for a in SITE_FORMS for b in SITE_FORMS] if thorough else pairs):
                            problems, seq = site_trial(pr, text, f1, f2, loop, kind)
                            chk.count(("sites", text, f1[0], f2[0], loop, kind), True, kind="history-stateful-text-two-sites")
                            if problems:
                                chk.fail(T_HISTORY, problems[0], {"kind": "history", "sources": seq, "problems": problems[:4]})
            # one compiled template rendered several times while the environment changes between the renders (language, autoescape, values)
            from django.utils import translation
            for leaf in ENV_LEAVES:
                for shi, shape in enumerate(HISTORY_SHAPES):
                    for kind in ("probe", "component"):
                        if not thorough and shi > 1 and rng.random() < 0.5:
                            continue
                        envs = list(ENVS)
                        rng.shuffle(envs)
                        problems, src = environment_trial(pr, leaf, shape, kind, envs[:4] if not thorough else envs)
                        chk.count(("env", leaf, shape[0], kind, tuple(envs[:4])), True, kind="history-rerender-environment")
                        if problems:
                            chk.fail(T_RERENDER, problems[0], {"kind": "rerender", "source": src, "environments": envs[:4] if not thorough else envs,
                                                              "problems": problems[:4]})
            # every generated structure: the SAME compiled template rendered a second time with other values, language and autoescape
            ctx2 = dict(CTX, **CTX2_CHANGES)
            for (kind, body, slash, first, al_l) in rerender:
                from django.template import Template, Context
                try:
                    with translation.override("de"):
                        exp2 = Denoter(ctx2, autoescape=False).arglist(al_l)
                except Exception:  # noqa - denotation undefined under the second set of values
                    continue
                src = sources_exact(kind, body, slash)
                try:
                    tpl = Template(src)
                except Exception as e:  # noqa - reported below as the outcome of both renders
                    tpl = e
                got = []
                for (c, lang, ae) in ((CTX, "en", True), (ctx2, "de", False)):
                    pr.calls.clear()
                    try:
                        if isinstance(tpl, Exception):
                            raise tpl
                        with translation.override(lang):
                            tpl.render(Context(dict(c), autoescape=ae))
                        got.append(("ok", pr.calls[0][1], pr.calls[0][2]) if len(pr.calls) == 1 else ("calls", len(pr.calls), None))
                    except Exception as e:  # noqa
                        got.append(("err", type(e).__name__, None))
                chk.count(("rerender2", kind, body), True, kind="history-rerender-other-values")
                ok1 = got[0][0] == first[0] and (first[0] != "ok" or (same(got[0][1], first[1]) and same(got[0][2], first[2])))
                ok2 = got[1][0] == "ok" and same(got[1][1], exp2[0]) and same(got[1][2], exp2[1])
                if not (ok1 and ok2):
                    chk.fail(T_RERENDER, "second render of one compiled template (other values, language de, autoescape off) hands %r to Python; its arguments "
                             "denote %r there (first render: %r)" % (got[1], exp2[:2], got[0]),
                             {"kind": "rerender", "source": src, "environments": [["en", True], ["de", False]], "second_values": "CTX2_CHANGES"})
            # the same tag text in another template (other surroundings, an unrelated {% load %}), later in the process: identical result
            for (kind, body, slash, first, _al) in rerender:
                head = "component 'c02x'" if kind == "component" else "c02probe"
                src = "zz{% load c02lib_a %} {{ i }}{% " + head + body + " %}" + ("" if (slash or kind == "probe") else "{% endcomponent %}") + "yy"
                res = pr.run(src, CTX)
                chk.count(("rerender", kind, body), True, kind="history-same-text-other-template")
                if res[0] != first[0] or (res[0] == "ok" and not (same(res[1], first[1]) and same(res[2], first[2]))):
                    chk.fail(T_HISTORY, "the same tag text gives %r in a second template, %r in the first" % (res[:3], first[:3]),
                             {"kind": "history", "sources": [sources(kind, body, slash), src]})
        finally:
            libs.uninstall()
    finally:
        pr.uninstall()
    import time
    chk.extra["t_proof_and_implementation_s"] = round(time.time() - chk.t0, 1)
    kw = clist([cstr(k) for k in keyword.kwlist])
    # not observable: flags at get_context_data (component), the self-closing slash at the probe (no end tag) - the
    # model's own value is let through there
    extra = ("Definition kws : list str := %s.\n"
             "Definition chk (c : rcase) : bool :=\n"
             "  let comp := str_eqb (rc_tag c) %s in\n"
             "  match rc_out c, run_tag kws (rc_tag c) (rc_allowed c) (ev_of_env (rc_env c)) (rc_text c) with\n"
             "  | RGot a k f cl, ROk (_, _, f', cl') =>\n"
             "      check_run kws (mkrcase (rc_tag c) (rc_allowed c) (rc_env c) (rc_text c) (RGot a k (if comp then f' else f) (if comp then cl else cl')))\n"
             "  | _, _ => check_run kws c end.\n" % (kw, cstr("component")))
    bad = C.coq_eval_cases("C02", "run", IMPORTS, "rcase", "chk", terms, shard=400, timeout=1200, extra_defs=extra)
    for i in bad[:20]:
        chk.disagree("run_tag model != implementation (args / kwargs / flags / exception class)", cases[i])
    # the AST itself: parse_tag model == implementation (normalized, TagAttr tree, serialize) for every text of this run
    import c12
    texts = sorted({c["parse_text"] for c in cases} | {c["parse_text"] for c in scases})
    aterms = [c12.parse_case_term(c12.impl_parse(t)) for t in texts]
    abad = C.coq_eval_cases("C02", "ast", U.IMPORTS, "str * outcome", "check_parse", aterms, shard=800, timeout=1200)
    for i in abad[:20]:
        chk.disagree("parse_tag model AST != implementation AST", {"kind": "ast", "parse_text": texts[i]})
    chk.extra["ast_cases"] = len(aterms)
    extra_s = "Definition kws : list str := %s.\nDefinition chk (c : scase) : bool := check_s kws c.\n" % kw
    sbad = C.coq_eval_cases("C02", "spec", IMPORTS_S, "scase", "chk", sterms, shard=300, timeout=1200, extra_defs=extra_s)
    for i in sbad[:20]:
        chk.disagree("S-model (arglist_ok / print == text handed to parse_tag / denote == received values) != implementation", scases[i])
    chk.extra["t_total_before_finish_s"] = round(time.time() - chk.t0, 1)
    chk.extra["spec_cases"] = len(sterms)
    chk.extra["model_cases"] = len(terms)
    chk.extra["spec_disagreement_examples"] = [scases[i] for i in sbad[:8]]
    chk.extra["spec_disagreement_terms"] = [sterms[i] for i in sbad[:2]]
    chk.extra["layout_failures"] = n_fail_lay
    chk.extra["disagreement_examples"] = [cases[i] for i in bad[:12]]
    chk.extra["disagreement_terms"] = [terms[i] for i in bad[:3]]
    chk.assumptions = [
        "leaf evaluation (variables, literals, filters, _() strings, nested template strings) is Django's FilterExpression / Template - trusted, not modelled",
        "receivers take var-positional and var-keyword parameters (signature validation belongs to C11)",
        "context values are str / int / bool / None / list / tuple / range / dict views / frozenset / dict and non-dict Mappings (MappingProxyType, UserDict, ChainMap)",
    ]
    return chk.finish(
        rule="argument-list STRUCTURES from the documented grammar (positional values, special-character and aggregate keys, list/dict literals nested to depth 3, "
             "* / ** / ... spreads of variables and of literals at every level, filters with arguments, _() and nested-template strings, strings with quotes / "
             "backslashes / ending in a backslash / inner white-space runs (two blanks, tab, line break, padding; in 20 %% of the structures forced next to a "
             "positional or keyword translation+filter), flags, self-closing slash), each printed by the Python mirror of Spec.print in %d layouts (canonical; random "
             "layout tables: white-space runs incl. tab / newline / CR LF / FF at every insignificant position, optional trailing commas, white space around | and : "
             "and inside _( ); odd layouts in the other quote style where equivalent; the last two with the slash flipped) and rendered through {%% component %%} "
             "(observed at get_context_data) and a probe BaseNode (observed at render); %d documented-invalid combinations x 3 contexts x 2 tags; mutations of "
             "printed argument lists and %d undocumented forms for M-model == implementation only; context values include non-dict Mappings (MappingProxyType, "
             "UserDict, ChainMap) and non-list iterables (tuple, range, dict keys view, frozenset, str) at every spread position; history: the same argument "
             "text in templates that differ only in {%% load %%} of two harness-registered filter libraries with overlapping filter names, rendered in "
             "every order within the process (oracle: stock {{ expr }} of the same template / TemplateSyntaxError where not loaded), one layout of every "
             "structure re-rendered inside another template, and the same stateful nested-template text ({%% cycle %%}, {%% ifchanged %%}) at two argument "
             "sites of one template (two loops / two calls / kwarg, list, dict, aggregate forms; oracle: site-independence and stock rendering of the inner text). Non-trivial = the body contains a container, filter, spread or key. Distinct = distinct "
             "(tag, body)." % (n_lay, len(INVALID), len(EXPLORE)),
        explanation="theorems of Props/C02.v re-checked by coqc (parse_print_denote for the full grammar, all layouts); per generated case: (direct) independent "
                    "denotation (Python list/dict semantics + Django leaf evaluation) == what the receivers get, and all layouts of one structure agree; (S) inside "
                    "Coq: arglist_ok, Spec.print of the structure under the layout table == the text the implementation's parse_tag received, Spec.denote == the "
                    "received args / kwargs / flags; (M) run_tag (parse_tag + flags + resolve + spreads + aggregation + binding) on that text == received values / "
                    "exception class, also for invalid / undocumented / mutated strings.",
        extra_trusted=["modelled, not verified: Django FilterExpression/Variable/Template (leaf values enter the models through a table computed by Django); "
                       "Token.split_contents + re-join in the component tag_fn and Django's stripping of tag contents are not modelled (tied by the S check: print under "
                       "the single-space layout == received text, and by the direct oracle)"])


def replay(path):
    import djsetup
    djsetup.setup()
    r = json.load(open(path))
    case = r.get("case", r)
    print(json.dumps(r, indent=1, default=repr)[:3000])
    pr = Probes()
    pr.install()
    try:
        if case.get("kind") == "rerender":
            from django.template import Template, Context
            from django.utils import translation
            tpl = Template(case["source"])
            print("source:", case["source"])
            for n, (lang, ae) in enumerate(case["environments"]):
                c = dict(CTX, **CTX2_CHANGES) if n % 2 == 1 else dict(CTX)
                pr.calls.clear()
                try:
                    with translation.override(lang):
                        tpl.render(Context(c, autoescape=ae))
                    print("render %d under %r:" % (n + 1, (lang, ae)), [(x[1], x[2]) for x in pr.calls])
                except Exception as e:  # noqa
                    print("render %d under %r:" % (n + 1, (lang, ae)), type(e).__name__, e)
            for p in case.get("problems", []):
                print("problem:", p)
            return 0
        if case.get("kind") == "history":
            libs = FilterLibs()
            libs.install()
            from django.template import Template, Context
            for src in case["sources"]:
                print("source:", src)
                pr.calls.clear()
                try:
                    Template(src).render(Context(dict(CTX)))
                    print("observed:", [(c[1], c[2]) for c in pr.calls])
                except Exception as e:  # noqa
                    print("observed:", type(e).__name__, e)
            for p in case.get("problems", []):
                print("problem:", p)
            libs.uninstall()
            return 0
        kind = case.get("kind", "probe")
        body = case.get("body", "")
        src = sources(kind if kind in ("component", "probe") else "probe", body, True if "/" in body.split()[-1:] else case.get("slash", True))
        print("source:", src)
        print("observed:", pr.run(src, CTX)[:4])
    finally:
        pr.uninstall()
    return 0
