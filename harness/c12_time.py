"""C12 - time / hang / memory oracle ("terminates within time bounded by a quadratic ... never a hang or unbounded memory").

Two halves:
  * worker (``python c12_time.py <cases.jsonl> <start> <limit_s>``): runs each case on the implementation under an in-process
    deadline on the CPU time of the call (ITIMER_PROF - wall time is NOT used, so machine load cannot fake a hang) and prints one
    JSON result line per case (outcome class, minimum CPU time over the repetitions, growth of the peak RSS);
  * parent API (``run_cases(cases, limit)``): starts the worker in a CHILD PROCESS, reads its result lines with a hard
    wall-clock watchdog per case (the worker is killed and restarted behind the stuck case when even the alarm does not
    come back, e.g. a C-level loop that never polls signals, or memory growth up to the RLIMIT_AS cap).
A case is {"target": T, "text": S}; T in
  parse_tag      parse_tag(S) + serialize() of every attribute + is_dynamic_expression on every part's serialisation
  template       django.template.Template(S, engine=E) for E = Engine(debug=True) and Engine(debug=False)  (Django Lexer/Parser + the tags' own parsing)
  parse_template django_components.util.template_parser.parse_template(S)
  detailed       _detailed_tag_parser(S, 1, 0)
  dynamic        is_dynamic_expression(S)
plus the adversarial input families (FAMILIES_TAG / FAMILIES_TPL) used by harness/c12.py.
"""
import json
import os
import select
import subprocess
import sys
import time

HARD_WALL = 12.0          # the parent kills the worker when a case shows no result after max(60 s, HARD_WALL * limit) of WALL time per repetition
MEM_CAP = 3 << 30         # RLIMIT_AS of the worker: a run-away allocation becomes MemoryError (an exception class != TSE)


# ---------------------------------------------------------------------------------------------
# input families: name -> (k -> text).  Lengths are linear in k.
# ---------------------------------------------------------------------------------------------
BS = "\\"


def _unterminated(prefix):
    """unterminated-string shapes after `prefix`, both quote kinds"""
    out = {}
    for qn, q in (("dq", '"'), ("sq", "'")):
        out["unterm-%s-backslashes" % qn] = lambda k, q=q: prefix + q + BS * k
        out["unterm-%s-backslash-d" % qn] = lambda k, q=q: prefix + q + "C:" + (BS + "d") * k
        out["unterm-%s-escaped-quotes" % qn] = lambda k, q=q: prefix + q + (BS + q) * k
        out["unterm-%s-escaped-quotes-x" % qn] = lambda k, q=q: prefix + q + (BS + q + "x") * k
        out["unterm-%s-mixed" % qn] = lambda k, q=q: prefix + q + (BS + BS + BS + q + "a" + BS) * (k // 3 + 1)
        out["unterm-%s-other-quote" % qn] = lambda k, q=q: prefix + q + (BS + "x") * k + ('"' if q == "'" else "'") + " b=1"
    return out


FAMILIES_TAG = {
    "nested-list": lambda k: "a=" + "[" * k + "]" * k,
    "nested-dict": lambda k: "a=" + "{k:" * k + "1" + "}" * k,
    "nested-list-dict": lambda k: "a=" + "[{k:" * k + "1" + "}]" * k,
    "nested-spread-dict": lambda k: "a=" + "{**" * k + "x" + "}" * k,
    "nested-spread-list": lambda k: "a=" + "[*" * k + "x" + "]" * k,
    "open-lists": lambda k: "a=" + "[" * k,
    "open-dicts": lambda k: "a=" + "{k:" * k,
    "close-lists": lambda k: "a=" + "]" * k,
    "close-dicts": lambda k: "a={" + "}" * k,
    "list-items": lambda k: "a=[" + "1, " * k + "1]",
    "list-commas": lambda k: "a=[1" + "," * k + "]",
    "dict-pairs": lambda k: "a={" + "k: 1, " * k + "}",
    "dict-colons": lambda k: "a={k" + ":" * k + "}",
    "many-attrs": lambda k: " ".join(["k=1"] * k),
    "many-positional": lambda k: " ".join(["v"] * k),
    "many-quoted": lambda k: " ".join(['"v"'] * k),
    "many-spreads": lambda k: " ".join(["...v"] * k),
    "long-key": lambda k: "k" * k + "=1",
    "long-word": lambda k: "v" * k,
    "long-key-no-value": lambda k: "k" * k + "=",
    "eq-run": lambda k: "a" + "=" * k,
    "long-string": lambda k: 'a="' + "x" * k + '"',
    "long-string-escapes": lambda k: 'a="' + (BS + '"x') * k + '"',
    "long-string-backslash-pairs": lambda k: 'a="' + (BS + BS) * k + '"',
    "dynamic-var": lambda k: 'a="' + "{{}}" * k + '"|x',
    "dynamic-block": lambda k: 'a="' + "{%%}" * k + '"|x',
    "dynamic-comment": lambda k: "a='" + "{##}" * k + "'|x:y",
    "dynamic-open-only": lambda k: 'a="' + "{{" * k + '"',
    "dynamic-close-only": lambda k: 'a="{{' + "}" * k + '"',
    "dynamic-mixed-quote": lambda k: "a='" + '{{"}}' * k + "'",
    "filter-chain": lambda k: "a" + "|f:1" * k,
    "filter-pipes": lambda k: "a" + "|" * k,
    "filter-pipe-ws": lambda k: "a" + " | f" * k,
    "filter-trailing-pipe": lambda k: "a" + "|f" * k + "|",
    "colon-run": lambda k: "a" + ":" * k,
    "star-run": lambda k: "a=[" + "*" * k + "]",
    "dot-run": lambda k: "." * k,
    "dots-spreads": lambda k: "..." * k + "x",
    "transl-run": lambda k: "_(" * k,
    "transl-ws": lambda k: "_(" + " " * k + '"x"' + " " * k + ")",
    "whitespace-run": lambda k: "a=[1," + " " * k + "2]",
    "whitespace-lead": lambda k: " " * k + "a",
    "newline-run": lambda k: "a" + "\n" * k + "b",
    "quote-run-dq": lambda k: '"' * k,
    "quote-run-sq": lambda k: "'" * k,
    "unicode-word": lambda k: "é" * k + "=中" * 3,
}
FAMILIES_TAG.update(_unterminated("a="))
FAMILIES_TAG.update({"list-" + n: (lambda k, f=f: "a=[1, " + f(k)[2:]) for n, f in _unterminated("a=").items()})
FAMILIES_TAG.update({"transl-" + n: (lambda k, f=f: "a=_(" + f(k)[2:]) for n, f in _unterminated("a=").items()})


# first argument of a component tag (no quoted name before it): the bits go through TagFormatter.parse (tag_formatter.py) in the tag
# function before parse_tag sees them.  Long bare words / long attribute names / separators of attribute syntax.
FAMILIES_FIRSTARG = {
    "word": lambda k: "a" * k,
    "word-digits": lambda k: "a1" * k,
    "word-dashes": lambda k: "a-" * k + "b",
    "word-underscores": lambda k: "a_" * k,
    "word-dots": lambda k: "a." * k + "b",
    "word-colons": lambda k: "a:" * k + "b",
    "word-mixed-separators": lambda k: "ab.cd:e-f_" * (k // 3 + 1),
    "word-then-pipe-eq": lambda k: "a" * k + "|x=1",
    "word-then-quote": lambda k: "a" * k + '"x"',
    "word-then-bracket": lambda k: "a" * k + "[1]",
    "word-unicode": lambda k: "é" * k,
    "key-long": lambda k: "k" * k + "='x'",
    "key-long-name": lambda k: "k" * k + "=1 name='x'",
    "key-dotted": lambda k: "a." * k + "b='x'",
    "key-colon": lambda k: "attrs:" + "class-" * k + "x='y'",
    "key-at": lambda k: "@click" + ".stop" * k + "='y'",
    "key-hash": lambda k: "#" + "a-" * k + "=1",
    "key-leading-colon": lambda k: ":" + "a" * k,
    "key-no-value": lambda k: "k" * k + "=",
    "eq-only": lambda k: "=" * k,
    "name-eq-run": lambda k: "name=" * k + "'x'",
    "name-repeated": lambda k: " ".join(["name='x'"] * min(k, 2) + ["a=1"] * k),
    "quoted-name-long": lambda k: "'" + "x" * k + "'",
    "quoted-name-eq": lambda k: "'" + "a=" * k + "'",
    "quoted-unterminated": lambda k: "'" + "a" * k,
    "many-words": lambda k: " ".join(["a" * 8] * k),
}
FIRST_SHAPES = ["{%% component %s %%}", "{%% component %s / %%}", "{%% xs %s / %%}", "{%% xs %s %%}b{%% endxs %%}"]


def _tpl_unterminated():
    out = {}
    for n, f in _unterminated("").items():
        # the seeded shape: a well-formed tag with the closing quote forgotten; then the same with template text behind it
        out["tag-" + n] = lambda k, f=f: '{% component "files" root=' + f(k) + " %}"
        out["tag-" + n + "-then-text"] = lambda k, f=f: "<p>{% component 'x' a=" + f(k) + " %}</p>\n{{ v }}{# c #}\n" + "text " * 5
        out["slot-" + n] = lambda k, f=f: "{% slot " + f(k) + " %}{% endslot %}"
    return out


FAMILIES_TPL = {
    "unterminated-block": lambda k: "a {% component 'x' " + "v " * k,
    "unterminated-block-noquote": lambda k: "a {% if " + "v " * k,
    "unterminated-var": lambda k: "a {{ " + "v " * k,
    "unterminated-comment": lambda k: "a {# " + "v " * k,
    "open-blocks": lambda k: "{% " * k,
    "open-vars": lambda k: "{{ " * k,
    "open-comments": lambda k: "{# " * k,
    "open-blocks-quoted": lambda k: "{% ' " * k,
    "close-only": lambda k: "%} }} #} " * k,
    "brace-run": lambda k: "{" * k + "%" * k + "}" * k,
    "many-quoted-tags": lambda k: "{% component 'x' a='1' / %}" * k,
    "many-plain-tags": lambda k: "{% component 'x' / %}".replace("'x'", "x") * k + "{{ v }}" * k,
    "many-vars": lambda k: "{{ v|default:'x' }} " * k,
    "many-comments": lambda k: "{# ' \" #}" * k,
    "quoted-tag-percents": lambda k: "{% component 'x' " + "% " * k + "/ %}",
    "quoted-tag-braces": lambda k: "{% component 'x' " + "} %" * k + " / %}",
    "quoted-tag-long-string": lambda k: "{% component 'x' a='" + "%} " * k + "' / %}",
    "quoted-tag-escapes": lambda k: "{% component 'x' a='" + (BS + "'") * k + "' / %}",
    "quoted-tag-backslash-pairs": lambda k: '{% component "x" a="' + (BS + BS) * k + '" / %}',
    "quoted-tag-multiline": lambda k: "{% component 'x'\n" + " a=1\n" * k + "/ %}",
    "verbatim-quoted": lambda k: "{% verbatim 'x' %}" + "{% a %}{{ b }}" * k + "{% endverbatim 'x' %}",
    "verbatim-unclosed": lambda k: "{% verbatim %}" + "{% component 'x' %}" * k,
    "text-quotes": lambda k: "it's \" " * k,
    "nested-fills": lambda k: "{% component 'x' %}" + "{% fill 'a' %}b{% endfill %}" * min(k, 1) + "{% endcomponent %}" + "x" * k,
    "dynamic-in-template": lambda k: "{% component 'x' a=\"" + "{{ v }}" * k + "\" / %}",
    "html-attrs": lambda k: "{% html_attrs attrs " + "class='a' " * k + "%}",
    "provide-kwargs": lambda k: "{% provide 'k' " + " ".join("a%d=%d" % (i, i) for i in range(k)) + " %}{% endprovide %}",
}
FAMILIES_TPL.update(_tpl_unterminated())


# ---------------------------------------------------------------------------------------------
# engines: both settings of `debug`; builtins = the component tags + a second registry whose components use the SHORTHAND tag
# formatter (`{% xs ... %}`), so both TagFormatters are on the compile path
# ---------------------------------------------------------------------------------------------
_engine_cache = {}


def make_engines():
    if _engine_cache:
        return {True: _engine_cache[True], False: _engine_cache[False]}
    from django.template import Engine, Library
    from django_components import Component, ComponentRegistry, RegistrySettings
    lib = Library()
    reg2 = ComponentRegistry(library=lib, settings=RegistrySettings(tag_formatter="django_components.component_shorthand_formatter"))

    class XS(Component):
        template = "xs"
    reg2.register("xs", XS)
    for dbg in (True, False):
        eng = Engine(debug=dbg, builtins=["django_components.templatetags.component_tags"])
        eng.template_builtins.append(lib)
        _engine_cache[dbg] = eng
    _engine_cache["registry"] = reg2          # keep it alive
    return {True: _engine_cache[True], False: _engine_cache[False]}


# ---------------------------------------------------------------------------------------------
# worker
# ---------------------------------------------------------------------------------------------
class _Hang(BaseException):
    pass


def _targets():
    from django.template import Template
    from django_components.expression import is_dynamic_expression
    from django_components.util.tag_parser import parse_tag
    from django_components.util.template_parser import _detailed_tag_parser, parse_template

    def t_parse_tag(s):
        _, attrs = parse_tag(s, None)
        for a in attrs:
            a.serialize()
        todo = [a.value for a in attrs]
        while todo:
            v = todo.pop()
            if hasattr(v, "entries"):
                todo.extend(v.entries)
            else:
                is_dynamic_expression(v.serialize())

    engs = list(make_engines().values())

    def t_template(s):
        # both settings of engine.debug (the debug branch of compile_nodelist handles every error differently); the first
        # exception that is not a TemplateSyntaxError wins
        err = None
        for eng in engs:
            try:
                Template(s, engine=eng)
            except _Hang:
                raise
            except BaseException as e:  # noqa
                if err is None or type(err).__name__ == "TemplateSyntaxError":
                    err = e
        if err is not None:
            raise err

    return {"parse_tag": t_parse_tag, "template": t_template, "parse_template": parse_template,
            "detailed": lambda s: _detailed_tag_parser(s, 1, 0), "dynamic": is_dynamic_expression}


def _worker(path, start, limit):
    import resource
    import signal
    try:
        resource.setrlimit(resource.RLIMIT_AS, (MEM_CAP, MEM_CAP))
    except (ValueError, OSError):
        pass
    import djsetup
    djsetup.setup()
    from django_components import Component, registry

    class X(Component):
        template = "x"
    registry.register("x", X)
    targets = _targets()

    def fire(*a):
        raise _Hang()
    # the deadline counts CPU time of this process (ITIMER_PROF), not wall time: a loaded or swapping machine cannot make a
    # fast call look like a hang
    signal.signal(signal.SIGPROF, fire)
    signal.signal(signal.SIGALRM, fire)
    import gc
    out = sys.stdout
    with open(path) as f:
        cases = [json.loads(line) for line in f]
    for i in range(start, len(cases)):
        c = cases[i]
        fn, s = targets[c["target"]], c["text"]
        reps = c.get("reps", 1)
        out.write(json.dumps({"begin": i}) + "\n")
        out.flush()
        best, outcome = None, None
        rss0 = resource.getrusage(resource.RUSAGE_SELF).ru_maxrss
        for _ in range(reps):
            if reps > 1:
                gc.collect()
                gc.disable()
            # an armed CPU-time timer makes Linux account CPU time by ticks (4 ms), so the runs that are MEASURED (reps > 1) are
            # guarded by a generous wall-clock alarm (3 * limit) instead; runs that are only watched use the CPU-time deadline
            if reps > 1:
                signal.setitimer(signal.ITIMER_REAL, 3 * limit)
            else:
                signal.setitimer(signal.ITIMER_PROF, limit)
            t0 = time.process_time()
            try:
                fn(s)
                o = "ok"
            except _Hang:
                o = "HANG"
            except BaseException as e:  # noqa
                o = type(e).__name__
            finally:
                dt = time.process_time() - t0
                signal.setitimer(signal.ITIMER_PROF, 0)
                signal.setitimer(signal.ITIMER_REAL, 0)
                gc.enable()
            outcome = o if outcome in (None, o) else outcome + "/" + o
            best = dt if best is None else min(best, dt)
            if o == "HANG" or dt > 0.3:          # repetitions only serve to de-noise short runs
                break
        rss1 = resource.getrusage(resource.RUSAGE_SELF).ru_maxrss
        out.write(json.dumps({"i": i, "outcome": outcome, "secs": round(best, 6), "rss_kb": rss1 - rss0}) + "\n")
        out.flush()


# ---------------------------------------------------------------------------------------------
# parent
# ---------------------------------------------------------------------------------------------
def _readline(p, buf, timeout):
    """one line from the worker's stdout or None on timeout / EOF"""
    t_end = time.time() + timeout
    while b"\n" not in buf[0]:
        left = t_end - time.time()
        if left <= 0:
            return None
        r, _, _ = select.select([p.stdout], [], [], left)
        if not r:
            return None
        chunk = os.read(p.stdout.fileno(), 65536)
        if not chunk:
            return None
        buf[0] += chunk
    line, buf[0] = buf[0].split(b"\n", 1)
    return line.decode()


_seq = [0]


def run_cases(cases, limit=5.0, workdir="/verif/work/C12", max_hangs=None, tag=""):
    """-> list of {"outcome", "secs", "rss_kb"} (outcome HANG: no result within `limit` s; HANG-HARD / DIED: the worker had
    to be killed / died on that case; SKIPPED: not run because `max_hangs` cases before it already hung)."""
    os.makedirs(workdir, exist_ok=True)
    _seq[0] += 1
    path = os.path.join(workdir, "time_cases_%d_%d%s.jsonl" % (os.getpid(), _seq[0], tag))
    with open(path, "w") as f:
        for c in cases:
            f.write(json.dumps(c) + "\n")
    res = [None] * len(cases)
    start = 0
    hangs = 0
    try:
        while start < len(cases):
            if max_hangs is not None and hangs >= max_hangs:
                for i in range(start, len(cases)):
                    res[i] = {"outcome": "SKIPPED", "secs": 0.0, "rss_kb": 0}
                break
            errf = open(path + ".err", "w+")
            p = subprocess.Popen([sys.executable, os.path.abspath(__file__), path, str(start), str(limit)],
                                 stdout=subprocess.PIPE, stderr=errf)
            buf = [b""]
            cur = None
            t_cur = time.time()
            startup = True
            enough = False
            while True:
                reps = cases[cur].get("reps", 1) if cur is not None else 1
                line = _readline(p, buf, 180 if startup else max(60.0, HARD_WALL * limit) * max(1, min(reps, 2)))
                if line is None:
                    break
                startup = False
                m = json.loads(line)
                if "begin" in m:
                    cur, t_cur = m["begin"], time.time()
                else:
                    res[m["i"]] = {"outcome": m["outcome"], "secs": m["secs"], "rss_kb": m["rss_kb"]}
                    start = m["i"] + 1
                    cur = None
                    if "HANG" in m["outcome"]:
                        hangs += 1
                    if start >= len(cases) or (max_hangs is not None and hangs >= max_hangs):
                        enough = True
                        break
            alive = p.poll() is None
            p.kill()
            p.wait()
            p.stdout.close()
            errf.seek(0)
            err = errf.read()[-600:]
            errf.close()
            if enough:
                continue
            if cur is None:
                if startup:
                    raise RuntimeError("c12_time worker did not start: " + err)
                cur = start
            res[cur] = {"outcome": "HANG-HARD" if alive else "DIED", "secs": round(time.time() - t_cur, 3), "rss_kb": 0,
                        "stderr": err}
            hangs += 1
            start = cur + 1
    finally:
        for q in (path, path + ".err"):
            try:
                os.remove(q)
            except OSError:
                pass
    return res


if __name__ == "__main__":
    _worker(sys.argv[1], int(sys.argv[2]), float(sys.argv[3]))
